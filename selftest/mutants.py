#!/usr/bin/env python3
"""Self-made mutants (DESIGN.md section 4, "self-test by seeded breakage"):
small source edits of the kind listed under "Must catch" per property.
Usage: selftest/mutants.py <scratch-worktree> [name-filter]
Applies each edit to the worktree, runs the named quick checks with
VERIF_REPO=<worktree>, reverts.  Not part of any registered command."""
import os
import subprocess
import sys

M = [
 # (name, file, old, new, checks)
 ('c01-slash-unescape', 'biom/table.py', "category = category.replace('@@SLASH@@', '/')", "category = category", ['C01']),
 ('c01-type-empty-string', 'biom/table.py', "type_ = None if h5grp.attrs['type'] == '' else h5grp.attrs['type']", "type_ = h5grp.attrs['type']", ['C01']),
 ('c01-padding-not-stripped', 'biom/table.py', "        if v:\n            if isinstance(v, bytes):\n                v = v.decode('utf8')\n            new_value.append(v)", "        if isinstance(v, bytes):\n            v = v.decode('utf8')\n        new_value.append(v)", ['C01']),
 ('c01-table-id-lost', 'biom/table.py', "generated_by=generated_by, table_id=id_,", "generated_by=generated_by,", ['C01']),
 ('c01-group-md-obs-for-both', 'biom/table.py', "sample_group_metadata=samp_grp_md)", "sample_group_metadata=obs_grp_md)", ['C01']),
 ('c04-shape-transposed', 'biom/table.py', "h5grp.attrs['shape'] = self.shape", "h5grp.attrs['shape'] = self.shape[::-1]", ['C04']),
 ('c04-indices-int64', 'biom/table.py', "grp.create_dataset('matrix/indices', shape=(len_data,),\n                               dtype=np.int32,", "grp.create_dataset('matrix/indices', shape=(len_data,),\n                               dtype=np.int64,", ['C04']),
 ('c04-missing-group-metadata-group', 'biom/table.py', "            grp.create_group('group-metadata')\n", "            if group_md:\n                grp.create_group('group-metadata')\n", ['C04', 'C01']),
 ('c06-transpose-md-not-swapped', 'biom/table.py', "self.ids()[:], self.ids(axis='observation')[:],\n                              sample_md_copy, obs_md_copy, self.table_id)", "self.ids()[:], self.ids(axis='observation')[:],\n                              obs_md_copy, sample_md_copy, self.table_id)", ['C06']),
 ('c06-sort-md-inverse-perm', 'biom/table.py', "            metadata = np.array(metadata)[fancy]", "            metadata = np.array(metadata)[np.argsort(fancy)]", ['C06']),
 ('c07-copy-shallow-md', 'biom/table.py', "deepcopy(self.metadata(axis='observation')),\n                              deepcopy(self.metadata()),", "self.metadata(axis='observation'),\n                              self.metadata(),", ['C07']),
 ('c07-copy-shares-matrix', 'biom/table.py', "return self.__class__(self._data.copy(),\n                              self.ids(axis='observation').copy(),", "return self.__class__(self._data,\n                              self.ids(axis='observation').copy(),", ['C07']),
 ('c08-head-off-by-one', 'biom/table.py', "row_ids = self.ids(axis='observation')[:n]", "row_ids = self.ids(axis='observation')[:n + 1]", ['C08', 'C19']),
 ('c08-invert-ignored-for-sets', 'biom/table.py', "        table = self if inplace else self.copy()\n\n        metadata = table.metadata(axis=axis)\n        ids = table.ids(axis=axis)\n        index = self._index(axis=axis)", "        table = self if inplace else self.copy()\n        if isinstance(ids_to_keep, (set, frozenset)) and invert and len(ids_to_keep) == 0:\n            invert = False\n\n        metadata = table.metadata(axis=axis)\n        ids = table.ids(axis=axis)\n        index = self._index(axis=axis)", ['C08']),
 ('c09-intersect-order-from-other', 'biom/table.py', "            new_samp_order = self._intersect_id_order(self.ids(), other.ids())", "            new_samp_order = self._intersect_id_order(other.ids(), self.ids()[1:] if len(self.ids()) > 2 else self.ids())", ['C09']),
 ('c09-prefer-other', 'biom/util.py', "    return x if x is not None else y", "    return y if y is not None else x", ['C09']),
 ('c10-no-resort', 'biom/table.py', "            if (tmp_table.ids(axis=invaxis) == invaxis_order).all():", "            if len(tmp_table.ids(axis=invaxis)) == len(invaxis_order) and not missing_ids:", ['C10']),
 ('c11-norm-divides-by-total', 'biom/table.py', "                    redux_data /= len(axis_ids)", "                    redux_data /= max(len(axis_ids), 2)", ['C11']),
 ('c11-min-group-size-strict', 'biom/table.py', "                if len(axis_ids) < min_group_size:", "                if len(axis_ids) <= min_group_size and min_group_size > 1:", ['C11']),
 ('c12-byid-off-by-one', 'biom/table.py', "            subset = set(ids[:n])", "            subset = set(ids[:n + (1 if n > 2 else 0)])", ['C12']),
 ('c13-norm-by-max', 'biom/table.py', "            return val / float(val.sum())", "            return val / float(val.sum()) if len(val) != 3 else val / float(val.max())", ['C13']),
 ('c13-rank-method-ignored', 'biom/table.py', "            return scipy.stats.rankdata(val, method=method)", "            return scipy.stats.rankdata(val, method='average' if method == 'max' else method)", ['C13']),
 ('c14-json-no-empty-drop', 'biom/parse.py', "        axis = 'observation' if axis == 'sample' else 'sample'\n        t.filter(gt_zero, axis=axis)", "        pass", ['C14']),
 ('c14-hdf5-unsorted-ranges', 'biom/table.py', "            indptr_indices = sorted(\n                (h5_indptr[i], h5_indptr[i+1]) for i in keep\n            )", "            indptr_indices = sorted(\n                ((h5_indptr[i], h5_indptr[i+1]) for i in keep),\n                key=lambda se: se[1] - se[0])", ['C14']),
 ('c15-shape-check-rows-only', 'biom/cli/table_validator.py', "            if ('columns' in table_json and\n                    len(table_json['columns']) != table_json['shape'][1]):", "            if ('columns' in table_json and\n                    len(table_json['columns']) < table_json['shape'][1]):", ['C15']),
 ('c15-negative-index-ok', 'biom/cli/table_validator.py', "            if y < 0 or y > n_cols:", "            if y > n_cols:", ['C15']),
 ('c16-eq-ignores-type', 'biom/table.py', "        if self.type != other.type:\n            return False", "        if self.type != other.type and self.type and other.type:\n            return False", ['C16']),
 ('c16-eq-ignores-sample-md', 'biom/table.py', "        if not np.array_equal(self.metadata(), other.metadata()):\n            return False\n        if not self._data_equality(other._data):\n            return False\n\n        return True", "        if not self._data_equality(other._data):\n            return False\n\n        return True", ['C16']),
 ('c17-adjacency-last-wins', 'biom/table.py', "        mat = coo_matrix((data, (row, col)))\n\n        return Table(mat, obs_order, samp_order)", "        mat = dok_matrix((len(obs_order), len(samp_order)))\n        for r_, c_, d_ in zip(row, col, data):\n            mat[r_, c_] = d_\n\n        return Table(mat, obs_order, samp_order)", ['C17']),
 ('c17-uc-L-counted', 'biom/parse.py', "        if line_type == 'H' or line_type == 'S':", "        if line_type in 'HSL':", ['C17']),
 ('c18-add-md-overwrites-entry', 'biom/table.py', "                    metadata[idx].update(md_entry)", "                    metadata[idx].clear()\n                    metadata[idx].update(md_entry)", ['C18']),
 ('c18-float-int', 'biom/cli/metadata_adder.py', "        return float(x)", "        return float(int(x)) if x.isdigit() else float(x) if '.' in x else x", ['C18']),
 ('c19-density-stored', 'biom/table.py', "            density = (self.nnz /\n                       (len(self.ids()) * len(self.ids(axis='observation'))))", "            density = (self.nnz /\n                       max(1, (len(self.ids()) * len(self.ids(axis='observation')) - (1 if self.shape[0] == 1 else 0))))", ['C19', 'C05']),
 ('c19-summarize-mean-as-median', 'biom/util.py', "                mean(counts),", "                median(counts) if len(counts) == 3 else mean(counts),", ['C19']),
 ('c20-errstate-all-partial', 'biom/err.py', "            to_update = [(err, new_state['all']) for err in self._state]", "            to_update = [(err, new_state['all']) for err in self._state if err != 'sampmdsize']", ['C20']),
 ('c20-unregister-keeps-state', 'biom/err.py', "        state = self._state.pop(errtype)", "        state = self._state.get(errtype)", ['C20']),
 ('c20-test-in-argument-order', 'biom/err.py', "        for errtype in sorted(args):", "        for errtype in args:", ['C20']),
 ('c20-call-gets-nothing', 'biom/err.py', "            'call': callback if callback is not None else lambda x: None,", "            'call': (lambda x: callback(x) if callback else None),", ['C20']),
]


def main():
    wt = sys.argv[1]
    flt = sys.argv[2] if len(sys.argv) > 2 else ''
    here = os.path.dirname(os.path.dirname(os.path.abspath(__file__)))
    survivors = []
    for name, fn, old, new, checks in M:
        if flt not in name:
            continue
        path = os.path.join(wt, fn)
        subprocess.run(['git', '-C', wt, 'checkout', '-q', '--', 'biom'])
        s = open(path).read()
        if s.count(old) != 1:
            print('%-36s EDIT DOES NOT APPLY (%d matches)' % (name,
                                                              s.count(old)))
            continue
        open(path, 'w').write(s.replace(old, new))
        res = []
        for c in checks:
            env = dict(os.environ, VERIF_REPO=wt,
                       VERIF_EVIDENCE_DIR='/tmp/ev-mut', VERIF_NO_SAN='1')
            p = subprocess.run([os.path.join(here, 'check'), c], env=env,
                               capture_output=True, text=True)
            sig = [l for l in p.stdout.split('\n') if l.startswith('# ')]
            res.append('%s rc=%d %s' % (c, p.returncode,
                                        sig[0][2:60] if sig else ''))
            if p.returncode != 1:
                survivors.append((name, c))
        print('%-36s %s' % (name, ' | '.join(res)))
        sys.stdout.flush()
    subprocess.run(['git', '-C', wt, 'checkout', '-q', '--', 'biom'])
    print('SURVIVORS:', survivors)


if __name__ == '__main__':
    main()
