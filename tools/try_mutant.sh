#!/bin/bash
# tools/try_mutant.sh <worktree> <patchfile> <tier> <ID> [<ID>...]
# Applies the patch inside the scratch worktree, runs the checks against it
# (VERIF_REPO), reverts.  Evidence files are written to a scratch dir so the
# committed evidence is not clobbered.
wt=$1; patch=$2; tier=$3; shift 3
git -C "$wt" checkout -q -- biom || exit 9
git -C "$wt" apply "$patch" || { echo "patch does not apply"; exit 9; }
for id in "$@"; do
  out=$(VERIF_REPO="$wt" VERIF_EVIDENCE_DIR=/tmp/ev-mut ./check "$id" --tier "$tier" 2>&1)
  rc=$?
  echo "== $id rc=$rc :: $(echo "$out" | grep -E '^(VIOLATION|INCONCLUSIVE|#)' | head -4 | cut -c1-400)"
done
git -C "$wt" checkout -q -- biom
