#!/usr/bin/env python3
"""Regenerate MANIFEST.json from the checks present in vm/checks (run with any
python3).  A property without a check module is listed under not_applicable
with the reason given in PENDING."""
import json
import os
import re

HERE = os.path.dirname(os.path.dirname(os.path.abspath(__file__)))
META = json.load(open(os.path.join(HERE, 'tools', 'check_meta.json')))
props = [json.loads(l) for l in open(os.path.join(HERE, 'properties.jsonl'))]
checks = []
na = []
for p in props:
    pid = p['id']
    mod = os.path.join(HERE, 'vm', 'checks', pid.lower() + '.py')
    m = META.get(pid, {})
    if os.path.exists(mod) and not m.get('not_applicable'):
        checks.append({
            'property_id': pid,
            'quick_cmd': './check %s --tier quick' % pid,
            'thorough_cmd': './check %s --tier thorough' % pid,
            'evidence_file': '/verif/evidence/%s.json' % pid,
            'replay_cmd_template': './check %s --replay {path}' % pid,
            'engine': 'vm',
            'level_claimed': {
                'category': m.get('category', 'exploration'),
                'text': m['text'],
                'design_ref': 'DESIGN.md section 5, ' + pid,
            },
            'level_note': m['note'],
            'technique': m['technique'],
        })
    else:
        na.append({'property_id': pid,
                   'reason': m.get('not_applicable',
                                   'check not built yet (work in progress)')})
manifest = {
    'version': 1,
    'setup_cmd': 'PYTHONPATH=/verif /venv/bin/python -m vm.setup',
    'hooks': {
        'guard': 'BIOM_FORMAT_VERIF',
        'enable': 'no source hooks: monitors attach from the harness '
                  '(attribute wrapping, callback taps, contracts, '
                  'independent file decoders); the guard variable is unused',
        'baseline_off_cmd': 'cd /repo && /venv/bin/python -m pytest -ra -q '
                            '-p no:cacheprovider --timeout=900 '
                            '--continue-on-collection-errors',
        'source_commits': [],
        'add_only': True,
    },
    'engines': [{
        'name': 'vm',
        'path': '/verif/vm',
        'serves_properties': [c['property_id'] for c in checks],
        'kind_free_text': 'runtime monitoring: seeded workload generators + '
                          'reference-model / callback-tap / invariant '
                          'monitors over executions of the real code, '
                          'sharded over subprocesses; ASan/UBSan lane for '
                          'the compiled kernels',
    }],
    'checks': checks,
    'not_applicable': na,
    'notes': 'See DESIGN.md. exit 0 = held on what was observed (KNOWN-'
             'FINDING lines possible), exit 1 = VIOLATION line(s), exit 2 = '
             'INCONCLUSIVE (a required monitor observed nothing). '
             'VERIF_SEED / VERIF_TIER / VERIF_REPO are honoured.',
}
with open(os.path.join(HERE, 'MANIFEST.json'), 'w') as f:
    json.dump(manifest, f, indent=1)
print('checks:', [c['property_id'] for c in checks])
print('not_applicable:', [n['property_id'] for n in na])
