#!/bin/bash
# tools/confirm_seeded.sh <worktree> : for each patch<k>.diff in the scratch
# worktree confirm (a) applies, (b) suite still 377 passed, (c) demo exits 1
# with the patch and 0 without; then file it under /verif/seeded/<ID>-<k>/.
wt=$1
id=$(basename "$wt")
cd "$wt" || exit 2
for k in 1 2 3; do
  [ -f patch$k.diff ] || continue
  git checkout -q -- biom
  /venv/bin/python demo$k.py >/dev/null 2>&1; clean_rc=$?
  if ! git apply patch$k.diff 2>/dev/null; then echo "$id-$k: patch does not apply"; continue; fi
  suite=$(/venv/bin/python -m pytest -q -p no:cacheprovider biom 2>&1 | tail -1)
  /venv/bin/python demo$k.py >/tmp/demo3-$id-$k.out 2>&1; mut_rc=$?
  git checkout -q -- biom
  ok=no
  if [ $clean_rc -eq 0 ] && [ $mut_rc -eq 1 ] && echo "$suite" | grep -q "377 passed"; then ok=yes; fi
  echo "$id-$k: clean_demo_rc=$clean_rc mutant_demo_rc=$mut_rc suite='$suite' confirmed=$ok"
  if [ $ok = yes ]; then
    d=/verif/seeded/$id-$((k+4)); mkdir -p $d
    cp patch$k.diff $d/patch.diff; cp demo$k.py $d/demo.py
    /venv/bin/python - "$wt/meta$k.json" "$d/meta.json" "$suite" <<'PY'
import json, sys
src, dst, suite = sys.argv[1:4]
try: m = json.load(open(src))
except Exception as e: m = {'note': 'agent meta unreadable: %s' % e}
m['confirmed_by_me'] = {'suite_with_patch': suite, 'demo_with_patch_rc': 1, 'demo_without_patch_rc': 0,
  'how': 'git apply patch in a scratch worktree of /repo HEAD; /venv/bin/python -m pytest -q biom; python demo.py; git checkout -- biom; python demo.py'}
json.dump(m, open(dst, 'w'), indent=1)
PY
  fi
done
