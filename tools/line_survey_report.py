"""Merges /dev/shm/lines-C*.json and lists, per function of <repo>/biom, the
executable lines no check executed."""
import ast
import glob
import json
import os
import sys

sys.path.insert(0, '/verif')
from vm import common          # noqa: E402
root = os.path.join(common.REPO, 'biom')
seen = set()
for f in glob.glob('/dev/shm/lines-C*.json'):
    seen |= {tuple(x) for x in json.load(open(f))}
for dp, _, files in os.walk(root):
    if '/tests' in dp or '/assets' in dp:
        continue
    for fn in sorted(files):
        if not fn.endswith('.py'):
            continue
        p = os.path.join(dp, fn)
        rel = os.path.relpath(p, root)
        src = open(p).read()
        code = compile(src, p, 'exec')
        lines = set()

        def walk(co):
            for _, _, ln in co.co_lines():
                if ln:
                    lines.add(ln)
            for k in co.co_consts:
                if hasattr(k, 'co_lines'):
                    walk(k)
        walk(code)
        tree = ast.parse(src)
        funcs = []
        for node in ast.walk(tree):
            if isinstance(node, (ast.FunctionDef, ast.AsyncFunctionDef)):
                funcs.append((node.lineno, node.end_lineno, node.name))
        srcl = src.split('\n')
        for lo, hi, name in sorted(funcs):
            body = [ln for ln in lines if lo < ln <= hi]
            # skip docstring-only lines
            miss = sorted(ln for ln in body if (rel, ln) not in seen)
            inner = [f_ for f_ in funcs if f_[0] > lo and f_[1] <= hi]
            miss = [ln for ln in miss if not any(a <= ln <= b for a, b, _ in inner)]
            if miss and len(miss) < len(body):
                print('%s:%s  (%d/%d lines not executed)' % (rel, name, len(miss), len(body)))
                for ln in miss[:12]:
                    print('     %5d  %s' % (ln, srcl[ln - 1].strip()[:110]))
            elif miss and body:
                print('%s:%s  NEVER EXECUTED (%d lines)' % (rel, name, len(body)))
