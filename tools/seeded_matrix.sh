#!/bin/bash
# tools/seeded_matrix.sh [tier] [filter] : run each seeded change against the
# check of its own property (scratch worktree, VERIF_REPO); prints one line
# per change.  Needs scratch worktrees /tmp/wt2/CXX (or creates one).
tier=${1:-quick}; flt=${2:-}; k=0   # PART=0|1: every other entry (two runs side by side)
wt=${WT:-/tmp/wt-matrix}
if [ ! -d $wt ]; then git -C /repo worktree add -q --detach $wt HEAD && cp /repo/biom/_*.so /repo/biom/_*.c $wt/biom/; fi
git -C $wt checkout -q --detach $(git -C /repo rev-parse HEAD)
for d in /verif/seeded/*${flt}*/; do
  if [ -n "$PART" ]; then k=$((k+1)); if [ $((k % 2)) -ne "$PART" ]; then continue; fi; fi
  id=$(basename $d); prop=${id%-*}
  if grep -q '"status_at_repo_HEAD": "equivalent' $d/meta.json 2>/dev/null; then echo "$id SKIPPED (equivalent at repo HEAD, see meta.json)"; continue; fi
  git -C $wt checkout -q -- biom
  if ! git -C $wt apply $d/patch.diff 2>/dev/null; then
     if ! git -C $wt apply --3way $d/patch.diff >/dev/null 2>&1; then echo "$id PATCH-DOES-NOT-APPLY"; git -C $wt reset -q --hard; continue; fi
     git -C $wt reset -q
  fi
  out=$(VERIF_REPO=$wt VERIF_EVIDENCE_DIR=/tmp/ev-mut-$(basename $wt) VERIF_NO_SAN=1 ./check $prop --tier $tier 2>&1); rc=$?
  echo "$id rc=$rc $(echo "$out" | grep -E '^# ' | head -2 | cut -c3-90 | tr '\n' '|')"
done
git -C $wt checkout -q -- biom
