"""tools/line_survey.py <ID> [N] : one-off survey (not a check).  Runs N case
indices (+ stress/finish) of one check in this process with a sys.monitoring
LINE collector on <repo>/biom/*.py and writes the executed (file, line) pairs
to /dev/shm/lines-<ID>.json.  tools/line_survey_report.py merges them."""
import importlib
import json
import os
import sys

sys.path.insert(0, '/verif')
sys.path.append('/verif/.deps')
os.environ['VERIF_NO_REACH'] = '1'
from vm import common, ctx as C          # noqa: E402

cid = sys.argv[1]
n = int(sys.argv[2]) if len(sys.argv) > 2 else 200
biom = common.import_biom()
root = os.path.join(common.REPO, 'biom') + os.sep
mon = sys.monitoring
TOOL = mon.COVERAGE_ID
mon.use_tool_id(TOOL, 'vm-line-survey')
seen = set()


def on_line(code, line):
    fn = code.co_filename
    if fn.startswith(root) and '/tests/' not in fn:
        seen.add((fn[len(root):], line))
        return None
    return mon.DISABLE


mon.register_callback(TOOL, mon.events.LINE, on_line)
mon.set_events(TOOL, mon.events.LINE)
mod = importlib.import_module('vm.checks.' + cid.lower())
c = C.Ctx(cid, 'quick', 0)
c.biom = biom
if hasattr(mod, 'setup'):
    mod.setup(c)
total = mod.plan('quick')['cases']
import random          # noqa: E402
# a random sample, not a stride: case kinds are often chosen by index % k
C.run_indices(mod, c, sorted(random.Random(0).sample(range(total),
                                                     min(n, total))))
for hook in ('stress', 'finish'):
    if hasattr(mod, hook):
        try:
            getattr(mod, hook)(c)
        except Exception as e:      # noqa
            print(cid, hook, type(e).__name__, e, file=sys.stderr)
mon.set_events(TOOL, 0)
json.dump(sorted(seen), open('/dev/shm/lines-%s.json' % cid, 'w'))
print(cid, len(seen), 'lines;', len(c.violations), 'violations', file=sys.stderr)
