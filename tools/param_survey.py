"""tools/param_survey.py [N] : one-off survey (not a check).  Wraps every
public function/method of biom.table, biom.parse, biom.util, biom.err and the
CLI helpers with a recorder, runs N case indices of every check in this
process and prints, per callable, which parameters were never passed
explicitly and which were only ever passed one value.  Used to find workload
gaps; output goes to stdout."""
import functools
import inspect
import sys
import types

sys.path.insert(0, '/verif')
from vm import common, ctx as C          # noqa: E402
biom = common.import_biom()
import biom.table, biom.parse, biom.util, biom.err  # noqa: E402,E401

SEEN = {}      # qualname -> {param: set(repr-class of value)}
SIGS = {}


def klass(v):
    if v is None or isinstance(v, (bool, str)) and len(str(v)) < 20:
        return repr(v)
    if isinstance(v, (int, float)):
        return type(v).__name__
    if callable(v):
        return 'callable'
    return type(v).__name__


def wrap(owner, name, f, qual):
    try:
        sig = inspect.signature(f)
    except (TypeError, ValueError):
        return
    SIGS[qual] = sig
    SEEN.setdefault(qual, {})

    @functools.wraps(f)
    def w(*a, **k):
        try:
            b = sig.bind_partial(*a, **k)
            for p, v in b.arguments.items():
                if p in ('self', 'cls'):
                    continue
                SEEN[qual].setdefault(p, set()).add(klass(v))
        except TypeError:
            pass
        return f(*a, **k)
    return w


def instrument():
    T = biom.table.Table
    for name, f in list(vars(T).items()):
        if name.startswith('_') and name not in ('__init__',):
            continue
        if isinstance(f, types.FunctionType):
            w = wrap(T, name, f, 'Table.' + name)
            if w:
                setattr(T, name, w)
        elif isinstance(f, classmethod):
            g = f.__func__
            w = wrap(T, name, g, 'Table.' + name)
            if w:
                setattr(T, name, classmethod(w))
        elif isinstance(f, staticmethod):
            g = f.__func__
            w = wrap(T, name, g, 'Table.' + name)
            if w:
                setattr(T, name, staticmethod(w))
    for mod in (biom.parse, biom.util, biom.err):
        for name, f in list(vars(mod).items()):
            if name.startswith('_') or not isinstance(f, types.FunctionType):
                continue
            if f.__module__ != mod.__name__:
                continue
            w = wrap(mod, name, f, mod.__name__ + '.' + name)
            if w:
                setattr(mod, name, w)
                if getattr(biom, name, None) is f:
                    setattr(biom, name, w)


OUT = open('/dev/shm/survey.out', 'w')


def main():
    n = int(sys.argv[1]) if len(sys.argv) > 1 else 200
    instrument()
    import importlib
    for k in range(1, 21):
        cid = 'C%02d' % k
        mod = importlib.import_module('vm.checks.c%02d' % k)
        c = C.Ctx(cid, 'quick', 0)
        c.biom = biom
        if hasattr(mod, 'setup'):
            mod.setup(c)
        total = mod.plan('quick')['cases']
        step = max(1, total // n)
        idx = list(range(0, total, step))[:n]
        try:
            C.run_indices(mod, c, idx)
        except Exception as e:
            print('survey: %s aborted: %r' % (cid, e), file=sys.stderr)
        print('survey: %s ran %d indices, %d violations' % (
            cid, len(idx), len(c.violations)), file=sys.stderr)
    for qual in sorted(SIGS):
        sig = SIGS[qual]
        seen = SEEN.get(qual, {})
        params = [p for p in sig.parameters if p not in ('self', 'cls')]
        if not seen and params:
            print('%-40s NEVER CALLED (params: %s)' % (qual, ', '.join(params)), file=OUT)
            continue
        for p in params:
            pr = sig.parameters[p]
            if pr.kind in (pr.VAR_POSITIONAL, pr.VAR_KEYWORD):
                continue
            vals = seen.get(p)
            if vals is None:
                print('%-40s %-28s never passed (default %r)' % (
                    qual, p, pr.default if pr.default is not pr.empty
                    else '<required>'), file=OUT)
            elif len(vals) == 1 and pr.default is not pr.empty:
                print('%-40s %-28s only %s' % (qual, p, next(iter(vals))),
                      file=OUT)


main()
OUT.close()
