#!/bin/bash
# tools/confirm_seeded_r9.sh <group-letter> : round-9 layout
# /tmp/r9-out/<g>/<ID>{a,b}/ -> seeded/<ID>-11 (a) and <ID>-12 (b)
g=$1; wt=/tmp/wt-r9-$g
cd "$wt" || exit 2
for d in /tmp/r9-out/$g/C*/; do
  nm=$(basename $d); id=${nm:0:3}; v=${nm:3:1}; k=11; [ "$v" = "b" ] && k=12
  git checkout -q -- biom
  PYTHONPATH=$wt /venv/bin/python $d/demo.py >/dev/null 2>&1; clean_rc=$?
  if ! git apply $d/patch.diff 2>/dev/null; then echo "$id-$k: patch does not apply"; continue; fi
  suite=$(/venv/bin/python -m pytest -q -p no:cacheprovider biom 2>&1 | tail -1)
  PYTHONPATH=$wt /venv/bin/python $d/demo.py >/tmp/demo9-$id-$k.out 2>&1; mut_rc=$?
  git checkout -q -- biom
  ok=no
  if [ $clean_rc -eq 0 ] && [ $mut_rc -eq 1 ] && echo "$suite" | grep -q "377 passed"; then ok=yes; fi
  echo "$id-$k: clean_demo_rc=$clean_rc mutant_demo_rc=$mut_rc suite='$suite' confirmed=$ok"
  if [ $ok = yes ]; then
    o=/verif/seeded/$id-$k; mkdir -p $o
    cp $d/patch.diff $o/patch.diff; cp $d/demo.py $o/demo.py
    /venv/bin/python - "$d/meta.json" "$o/meta.json" "$suite" <<'PY'
import json, sys
src, dst, suite = sys.argv[1:4]
try: m = json.load(open(src))
except Exception as e: m = {'note': 'agent meta unreadable: %s' % e}
m['round'] = 9
m['confirmed_by_me'] = {'suite_with_patch': suite, 'demo_with_patch_rc': 1, 'demo_without_patch_rc': 0,
  'how': 'git apply patch in a scratch worktree of /repo HEAD; /venv/bin/python -m pytest -q biom; PYTHONPATH=<worktree> python demo.py; git checkout -- biom; demo again'}
json.dump(m, open(dst, 'w'), indent=1)
PY
  fi
done
