#!/bin/bash
# tools/confirm_seeded_r4.sh <group-letter> : confirm the round-18 changes in
# /tmp/r18-out/<g>/<ID>/ against scratch worktree /tmp/wt-r18-<g>: (a) patch
# applies to /repo HEAD, (b) repo suite still 377 passed, (c) demo exits 1
# with the patch and 0 without.  Confirmed ones are filed as seeded/<ID>-22.
g=$1; wt=/tmp/wt-r18-$g
cd "$wt" || exit 2
for d in /tmp/r18-out/$g/C*/; do
  id=$(basename $d)
  git checkout -q -- biom
  PYTHONPATH=$wt /venv/bin/python $d/demo.py >/dev/null 2>&1; clean_rc=$?
  if ! git apply $d/patch.diff 2>/dev/null; then echo "$id-22: patch does not apply"; continue; fi
  suite=$(/venv/bin/python -m pytest -q -p no:cacheprovider biom 2>&1 | tail -1)
  PYTHONPATH=$wt /venv/bin/python $d/demo.py >/tmp/demo18-$id.out 2>&1; mut_rc=$?
  git checkout -q -- biom
  ok=no
  if [ $clean_rc -eq 0 ] && [ $mut_rc -eq 1 ] && echo "$suite" | grep -q "377 passed"; then ok=yes; fi
  echo "$id-22: clean_demo_rc=$clean_rc mutant_demo_rc=$mut_rc suite='$suite' confirmed=$ok"
  if [ $ok = yes ]; then
    o=/verif/seeded/$id-22; mkdir -p $o
    cp $d/patch.diff $o/patch.diff; cp $d/demo.py $o/demo.py
    /venv/bin/python - "$d/meta.json" "$o/meta.json" "$suite" <<'PY'
import json, sys
src, dst, suite = sys.argv[1:4]
try: m = json.load(open(src))
except Exception as e: m = {'note': 'agent meta unreadable: %s' % e}
m["round"] = 18
m['confirmed_by_me'] = {'suite_with_patch': suite, 'demo_with_patch_rc': 1, 'demo_without_patch_rc': 0,
  'how': 'git apply patch in a scratch worktree of /repo HEAD; /venv/bin/python -m pytest -q biom; PYTHONPATH=<worktree> python demo.py; git checkout -- biom; demo again'}
json.dump(m, open(dst, 'w'), indent=1)
PY
  fi
done
