#!/bin/bash
# tools/run_all.sh [quick|thorough] : run every check sequentially, summary table
tier=${1:-quick}
for i in $(seq -w 1 20); do
  s=$(date +%s.%N)
  out=$(./check C$i --tier $tier 2>&1); rc=$?
  e=$(date +%s.%N)
  printf "C%s rc=%d %6.1fs %s\n" $i $rc $(echo "$e - $s" | bc) "$(echo "$out" | grep -E '^C[0-9]+ ' | sed -E 's/.*: (held|violated|inconclusive); /\1 /' | cut -c1-70)"
  echo "$out" | grep -E "^(VIOLATION|INCONCLUSIVE|KNOWN-FINDING)" | cut -c1-200
done
