"""pytest plugin (DESIGN.md section 7): run the repository's own suite with
the C05 class invariant (M4) installed on biom.table.Table.

    pytest -p vm.pytest_plugin biom      (PYTHONPATH must hold /verif[/.deps])

A test in which the invariant fires is a witness of incoherent internal
state reachable from test code.  Tests that create such state on purpose are
recognised mechanically from their own source (assignment to / mutation of a
private `._x` attribute, validate=False, errstate(/seterr() and reported as
excluded; every other firing is a finding."""
import inspect
import json
import os
import re

import pytest

_PRIVATE_WRITE = re.compile(
    r"\._[a-z][a-z_]*(\[[^\]]*\])*\s*(=[^=]|\.append\(|\.update\(|\+=)"
    r"|validate\s*=\s*False|errstate\(|seterr\(|\._data\b")
_STATE = {'fired': [], 'c05': None}


def pytest_configure(config):
    from vm import common
    common.import_biom()
    from vm.checks import c05

    class _Ctx:
        pass
    c05.install_invariant(_Ctx())
    _STATE['c05'] = c05


@pytest.hookimpl(hookwrapper=True)
def pytest_runtest_makereport(item, call):
    outcome = yield
    rep = outcome.get_result()
    if rep.when != 'call' or not rep.failed:
        return
    txt = str(rep.longrepr)
    if 'CoherenceBroken' not in txt:
        _STATE['fired'].append({'node': item.nodeid, 'kind': 'other-failure',
                                'excerpt': txt[-600:]})
        return
    try:
        src = inspect.getsource(item.function)
        # fixtures live in setUp of the class
        cls = getattr(item, 'cls', None)
        if cls is not None and hasattr(cls, 'setUp'):
            src += inspect.getsource(cls.setUp)
    except Exception:
        src = ''
    m = _PRIVATE_WRITE.search(src)
    _STATE['fired'].append({
        'node': item.nodeid, 'kind': 'invariant',
        'excluded': bool(m), 'why': m.group(0) if m else None,
        'excerpt': txt[-400:]})


def pytest_sessionfinish(session, exitstatus):
    out = os.environ.get('VM_PLUGIN_OUT')
    c05 = _STATE['c05']
    if c05 is not None and out:
        with open(out, 'w') as f:
            json.dump({'invariant_evaluations': c05._EVALS[0],
                       'fired': _STATE['fired'],
                       'tests_collected': session.testscollected}, f)
