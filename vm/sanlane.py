"""Sanitizer lane (DESIGN.md section 6): repeat kernel-centred cases of a
check on kernels compiled with clang -fsanitize=address,undefined, the ASan
runtime preloaded into the (uninstrumented) interpreter.  Reports are read
from the sanitizer's own log files, never from exit codes.  A canary shared
object with a deliberate heap overflow proves the sanitizer is live; without
its report the lane is inconclusive (recorded, never a violation)."""
import glob
import json
import os
import re
import shutil
import subprocess
import tempfile

from vm import build, common

CANARY_C = r"""
#include <stdlib.h>
int canary(int n) { volatile char *p = (char*)malloc(8); p[n] = 1; int r = p[0]; free((void*)p); return r; }
"""


def _env(logprefix):
    rt = build.asan_runtime()
    env = dict(os.environ)
    env['LD_PRELOAD'] = rt or ''
    env['ASAN_OPTIONS'] = ('detect_leaks=0:halt_on_error=0:'
                           'allocator_may_return_null=1:symbolize=0:log_path=%s' %
                           logprefix)
    env['UBSAN_OPTIONS'] = ('print_stacktrace=1:halt_on_error=0:symbolize=0:'
                            'log_path=%s' % logprefix)
    env['VERIF_KERNEL_VARIANT'] = 'san'
    env['PYTHONPATH'] = common.VERIF + os.pathsep + env.get('PYTHONPATH', '')
    env['PYTHONHASHSEED'] = '0'
    env['LC_ALL'] = 'C'
    env['PYTHONDONTWRITEBYTECODE'] = '1'
    return env, rt


def canary_ok(workdir):
    src = os.path.join(workdir, 'canary.c')
    so = os.path.join(workdir, 'canary.so')
    with open(src, 'w') as f:
        f.write(CANARY_C)
    r = subprocess.run(['clang', '-O0', '-g', '-fsanitize=address,undefined',
                        '-fno-omit-frame-pointer', '-fPIC', '-shared', src,
                        '-o', so], capture_output=True, text=True)
    if r.returncode != 0:
        return False, 'canary compile failed: ' + r.stderr[-200:]
    prefix = os.path.join(workdir, 'canary-log')
    env, rt = _env(prefix)
    if not rt:
        return False, 'no ASan runtime found'
    subprocess.run([common.PY, '-c', 'import ctypes; ctypes.CDLL(%r).canary(8)'
                    % so], env=env, capture_output=True, text=True,
                   timeout=120)
    logs = glob.glob(prefix + '*')
    txt = ''.join(open(p, errors='replace').read() for p in logs)
    return 'heap-buffer-overflow' in txt, 'canary reported' \
        if 'heap-buffer-overflow' in txt else 'canary overflow NOT reported'


def reports(prefix):
    """De-duplicated sanitizer reports: [(kind, top biom frame, excerpt)]"""
    out = {}
    for p in glob.glob(prefix + '*'):
        txt = open(p, errors='replace').read()
        for blk in re.split(r'(?==+\d+==ERROR: AddressSanitizer)|(?=\S+:\d+:\d+: runtime error:)', txt):
            m = re.search(r'ERROR: AddressSanitizer: (\S+)', blk)
            u = re.search(r'runtime error: (.*)', blk)
            if not m and not u:
                continue
            kind = m.group(1) if m else 'ubsan: ' + u.group(1)[:80]
            fr = re.search(r'(_(?:filter|transform|subsample))[^ ]*\.so\+(0x[0-9a-f]+)', blk) or \
                re.search(r'(biom/_\w+\.(?:c|pyx)):(\d+)', blk)
            top = '%s+%s' % fr.groups() if fr else '?'
            out.setdefault((kind, top), blk[:1500])
    return [(k[0], k[1], v) for k, v in out.items()]


def run(cid, tier, seed, indices, timeout=1800):
    """Re-run the given case indices of check `cid` on the sanitizer build.
    Returns dict(status, reports, info)."""
    base = os.path.join(common.BUILD, 'san-run')
    os.makedirs(base, exist_ok=True)
    work = tempfile.mkdtemp(prefix='%s-' % cid, dir=base)
    info = {'cases': len(indices)}
    try:
        built = build.build_all('san')
        info['kernels'] = {k: m for k, (s, m) in built.items()}
        if not all(s for s, m in built.values()):
            return {'status': 'inconclusive', 'reports': [], 'info': dict(
                info, reason='sanitizer build of the kernels failed')}
        ok, msg = canary_ok(work)
        info['canary'] = msg
        if not ok:
            return {'status': 'inconclusive', 'reports': [], 'info': info}
        prefix = os.path.join(work, 'san-log')
        env, rt = _env(prefix)
        out = os.path.join(work, 'res.json')
        code = ('import sys, json, importlib\n'
                'from vm import ctx as C\n'
                'cid, tier, seed, out = sys.argv[1:5]\n'
                'idx = json.loads(sys.argv[5])\n'
                'mod = importlib.import_module("vm.checks." + cid.lower())\n'
                'ctx = C.Ctx(cid, tier, int(seed))\n'
                'hasattr(mod, "setup") and mod.setup(ctx)\n'
                'C.run_indices(mod, ctx, idx)\n'
                'if hasattr(mod, "stress"):\n'
                '    C.run_indices(type("S", (), {"run_case": staticmethod('
                'lambda c, i: mod.stress(c))}), ctx, ["stress"])\n'
                'import biom._filter as f\n'
                'res = ctx.result(); res["kernel_file"] = f.__file__\n'
                'json.dump(res, open(out, "w"), default=str)\n')
        try:
            p = subprocess.run([common.PY, '-c', code, cid, tier, str(seed),
                                out, json.dumps(list(indices))], env=env,
                               cwd=common.VERIF, capture_output=True,
                               text=True, timeout=timeout)
        except subprocess.TimeoutExpired:
            return {'status': 'inconclusive', 'reports': [], 'info': dict(
                info, reason='watchdog')}
        reps = reports(prefix)
        if os.path.exists(out):
            res = json.load(open(out))
            info['evaluations'] = res['evaluations']
            info['counters'] = {k: v for k, v in res['counters'].items()
                                if k.startswith('stress')}
            info['violation_records'] = res['violations'][:5]
            info['kernel_file'] = res.get('kernel_file')
            info['behavioural_violations'] = [v['sig'] for v in
                                              res['violations']][:5]
            if '/san/' not in (res.get('kernel_file') or ''):
                return {'status': 'inconclusive', 'reports': reps,
                        'info': dict(info, reason='sanitizer kernels were '
                                     'not the ones loaded')}
        else:
            info['worker_rc'] = p.returncode
            info['stderr'] = p.stderr[-1500:]
            if not reps:
                return {'status': 'crash', 'reports': [], 'info': info}
        return {'status': 'reports' if reps else 'clean', 'reports': reps,
                'info': info}
    finally:
        shutil.rmtree(work, ignore_errors=True)
