"""Seeded generators: ids, values, metadata, table specs, layouts.

All randomness comes from a random.Random handed in by the caller.  A table
is described by a plain `Spec` (the reference: ids, dense float64 matrix,
per-id metadata dicts or None, type); `build()` turns a Spec into a real
biom.Table through one of several construction routes; `apply_layout()`
applies a content-preserving public-API recipe that leaves a particular
sparse layout behind.
"""
import copy
import struct

import numpy as np

TABLE_TYPES = ["OTU table", "Pathway table", "Function table",
               "Ortholog table", "Gene table", "Metabolite table",
               "Taxon table"]

ID_CLASSES = ['ascii', 'one', 'long', 'punct', 'space', 'slash', 'numeric',
              'natsort', 'latin1', 'cjk', 'astral', 'prefix', 'case',
              'reserved', 'decimal', 'control', 'normforms', 'mixed']
# classes safe for the classic TSV format (no tab/newline/#-start/edge blank)
VALUE_CLASSES = ['count', 'bigcount', 'dyadic', 'frac', 'neg', 'tiny',
                 'manydigits', 'huge', 'subnormal', 'const', 'mixed']

# text that reads like a null / boolean / number / empty container: header
# fields and metadata values holding it are still text
NULLISH = ['None', 'null', 'none', 'NULL', 'nan', 'NaN', 'true', 'false',
           'True', 'False', '0', '1', '-1', '0.0', '[]', '{}', '""', 'inf',
           'No Table ID', 'undefined', 'NA', 'N/A', ' ']

_PUNCT = list('[]{}"\'\\,;:|#()<>=+-*&^%$@!~`?._')
_LATIN = list('éèüñøßÆçÀ')
_CJK = list('日本語微生物汉字한글')
_ASTRAL = ['😀', '🧬', '𝒳', '🦠']


def _uniq(r, n, make):
    out = []
    seen = set()
    tries = 0
    while len(out) < n:
        s = make(len(out))
        tries += 1
        if tries > 50 * (n + 1):
            s = s + '_%d' % len(out)
        if s and s not in seen:
            seen.add(s)
            out.append(s)
    return out


def gen_ids(r, n, cls, prefix):
    """n distinct non-empty ids of the given class; prefix separates axes."""
    if cls == 'mixed':
        subs = [c for c in ID_CLASSES if c != 'mixed']
        return _uniq(r, n, lambda i: gen_ids(r, 1, r.choice(subs), prefix)[0])
    if cls == 'ascii':
        return _uniq(r, n, lambda i: '%s%d' % (prefix, r.randrange(1000)))
    if cls == 'one':
        alpha = 'abcdefghijklmnopqrstuvwxyzABCDEFGHIJKLMNOPQRSTUVWXYZ'
        alpha = alpha[:26] if prefix.lower() < 'p' else alpha[26:]
        return _uniq(r, n, lambda i: r.choice(alpha))
    if cls == 'long':
        return _uniq(r, n, lambda i: prefix + ''.join(
            r.choice('ACGT') for _ in range(r.choice([60, 150, 300]))))
    if cls == 'punct':
        return _uniq(r, n, lambda i: prefix + ''.join(
            r.choice(_PUNCT) for _ in range(r.randint(1, 5))) + str(i))
    if cls == 'space':
        return _uniq(r, n, lambda i: '%s sample %d x' % (prefix,
                                                        r.randrange(100)))
    if cls == 'slash':
        return _uniq(r, n, lambda i: '%s/%d/%s' % (prefix, r.randrange(50),
                                                   r.choice('abc')))
    if cls == 'numeric':
        pool = ['1', '2', '10', '1.0', '1.5', '1e5', '007', '-3', '0', '3.14',
                '2e-3', '100', '42']
        base = 0 if prefix.lower() < 'p' else 1000
        return _uniq(r, n, lambda i: r.choice(pool) if r.random() < .6
                     else str(base + r.randrange(1000)))
    if cls == 'normforms':
        # ids that are different strings but equal after Unicode
        # normalisation / case folding (composed and decomposed accents,
        # ligatures, the Angstrom and Kelvin signs, sharp s, dotless i,
        # full-width forms): different ids
        groups = [['\u00e9', 'e\u0301'], ['\u00c5', '\u212b', 'A\u030a'],
                  ['\ufb01', 'fi'], ['\u00df', 'ss', '\u1e9e'],
                  ['K', '\u212a', 'k'], ['\u0131', 'i', '\u0130', 'I'],
                  ['\uff21', 'A'], ['\u00b5', '\u03bc'], ['\u1e69',
                                                           's\u0323\u0307',
                                                           's\u0307\u0323']]
        g = r.choice(groups)
        stem = prefix + r.choice(['', 'x', 'otu'])
        pool = [stem + v for v in g] + [stem + v + '1' for v in g]
        r.shuffle(pool)
        return _uniq(r, n, lambda i: pool[i] if i < len(pool)
                     else stem + str(r.randrange(10 ** 6)))
    if cls == 'control':
        # ASCII ids holding a control character other than tab / newline /
        # carriage return / NUL (legal in JSON once escaped, in HDF5 as is)
        return _uniq(r, n, lambda i: prefix + r.choice('abc') + r.choice(
            ['\x0b', '\x0c', '\x1f', '\x01', '\x7f', '\x1b', '\x08']) +
            str(r.randrange(100)))
    if cls == 'natsort':
        return _uniq(r, n, lambda i: '%s%s' % (
            r.choice(['a', 'b', prefix]),
            r.choice(['1', '2', '10', '1.5', '02', '20', '3b', ''])))
    if cls == 'prefix':
        # ids that are prefixes / suffixes / substrings of one another
        stem = prefix + r.choice(['a', 'ab', 'x1'])
        pool = [stem, stem + 'a', stem + 'ab', stem + '1', stem + '10',
                stem + '100', stem + '.', stem + '.1', stem + '_', 'z' + stem,
                stem + stem, stem[:-1] if len(stem) > 1 else stem + 'q']
        r.shuffle(pool)
        return _uniq(r, n, lambda i: pool[i] if i < len(pool)
                     else stem + str(r.randrange(10 ** 6)))
    if cls == 'case':
        # ids that differ only in letter case
        base = prefix + r.choice(['abc', 'otu', 'Sample'])
        pool = list(dict.fromkeys([base.lower(), base.upper(),
                                   base.capitalize(), base.swapcase(),
                                   base.title(), base[0] + base[1:].upper(),
                                   base.lower()[:-1] + base[-1].upper()]))
        r.shuffle(pool)
        return _uniq(r, n, lambda i: pool[i] if i < len(pool)
                     else base + str(r.randrange(10 ** 6)))
    if cls == 'reserved':
        # ids that are words the library or its formats use themselves
        pool = ['all', 'taxonomy', 'None', 'null', 'true', 'false', 'nan',
                'inf', 'id', 'ids', 'metadata', 'matrix', 'sample',
                'observation', 'whole', 'shape', 'data', 'rows', 'columns',
                'indices', 'indptr', 'OTU ID', 'collapsed_ids', 'Path',
                'empty', 'raise', 'dense', 'sparse', 'type', 'date',
                'format', 'self', 'axis', 'sampleid', 'SampleID',
                'sample-id', 'sample id', 'featureid', 'feature-id',
                'FeatureID', 'feature id', 'ID', 'Id', 'name', 'index',
                'OTUID', 'otu id']
        # (the second axis gets half of them with a mark, so that the two
        # axes share some names but not all)
        pool = [p if prefix.lower() < 'p' or r.random() < .5 else p + '_'
                for p in pool]
        r.shuffle(pool)
        return _uniq(r, n, lambda i: pool[i] if i < len(pool)
                     else prefix + str(r.randrange(10 ** 6)))
    if cls == 'decimal':
        # one prefix followed by numbers with fractional parts of different
        # lengths (natural order = order of the numbers)
        pool = ['0.125', '0.13', '7.250', '7.26', '1.10', '1.9', '12.50',
                '12.6', '3', '10', '2.05', '2.5', '0.5', '0.05', '100.001',
                '100.01', '9.99', '9.9', '1.25', '1.3']
        r.shuffle(pool)
        pre = prefix.lower() + r.choice(['', 'd', 'run'])
        return _uniq(r, n, lambda i: pre + (pool[i] if i < len(pool)
                                            else str(r.randrange(10 ** 6))))
    if cls == 'latin1':
        return _uniq(r, n, lambda i: prefix + ''.join(
            r.choice(_LATIN) for _ in range(r.randint(1, 4))) + str(i))
    if cls == 'cjk':
        return _uniq(r, n, lambda i: ''.join(
            r.choice(_CJK) for _ in range(r.randint(1, 4))) + prefix + str(i))
    if cls == 'astral':
        return _uniq(r, n, lambda i: prefix + r.choice(_ASTRAL) * r.randint(
            1, 2) + str(i))
    raise ValueError(cls)


def gen_value(r, vclass):
    if vclass == 'mixed':
        vclass = r.choice([c for c in VALUE_CLASSES if c != 'mixed'])
    if vclass == 'const':
        # one and the same value everywhere (ties, equal totals); the value
        # is fixed per generator stream position by gen_matrix
        return 2.0
    if vclass == 'count':
        return float(r.randint(1, 9))
    if vclass == 'bigcount':
        return float(r.choice([2 ** 31 - 1, 2 ** 31, 2 ** 40,
                               r.randint(10 ** 5, 10 ** 12)]))
    if vclass == 'dyadic':
        return r.randint(1, 64) / 8.0
    if vclass == 'frac':
        return r.random() * r.choice([1, 10, 1000])
    if vclass == 'neg':
        return -float(r.randint(1, 9)) if r.random() < .7 else \
            float(r.randint(1, 9))
    if vclass == 'tiny':
        return r.choice([1e-7, 3.5e-9, 1e-12, 2.5e-7]) * r.randint(1, 9)
    if vclass == 'manydigits':
        return r.choice([0.1234567891, 1 / 3.0, 2 / 7.0, 123456.7890123,
                         0.1 + 0.2]) * r.randint(1, 7)
    if vclass == 'huge':
        return r.choice([1e300, 1.7e308, 3e200, 1e22, 1e16 + 2])
    if vclass == 'subnormal':
        return r.choice([5e-324, 1e-310, 2.2250738585072014e-308])
    raise ValueError(vclass)


def gen_matrix(r, n, m, vclass, density, force=None):
    """force in {None,'zero-row','zero-col','single','diag','zero-both'}"""
    D = np.zeros((n, m), dtype=np.float64)
    const = r.choice([1.0, 2.0, 5.0, 0.5, 3.0]) if vclass == 'const' else None
    for i in range(n):
        for j in range(m):
            if r.random() < density:
                D[i, j] = gen_value(r, vclass) if const is None else const
    if const is not None and r.random() < .4 and n and m:
        # every vector the same total: a full constant block
        D[:] = const
    if force == 'single':
        D[:] = 0
        D[r.randrange(n), r.randrange(m)] = gen_value(r, vclass)
    elif force == 'diag':
        D[:] = 0
        for k in range(min(n, m)):
            D[k, k] = gen_value(r, vclass)
    if force in ('zero-row', 'zero-both') and n > 1:
        D[r.randrange(n), :] = 0
    if force in ('zero-col', 'zero-both') and m > 1:
        D[:, r.randrange(m)] = 0
    return D


MD_KINDS = ['none', 'text', 'int', 'float', 'bool', 'taxonomy', 'multi',
            'mixednum']
_TEXTS = ['a', 'soil', 'gut microbiome', 'x/y', 'é', '日本', 'k__Bacteria',
          'p__[Thermi]', 'A;B', 'tab-free', "it's", 'q"uote', '', '0', '1.5',
          'None', 'nan', 'true', 'null', 'False', '[]', 'NA']
_TAXA = ['k__Bacteria', 'p__Firmicutes', 'c__Bacilli', 'o__Lactobacillales',
         'f__é', 'g__日本', 's__x y', 'p__[Thermi]', 'a/b', 'x,y',
         'p__Protéobactéries_éééé', 's__日本語の分類群の長い名前です',
         # levels that hold the separator of the flat spelling themselves
         'k__Bacteria;p__Firmicutes', 'p__Firmicutes;c__Bacilli', 'k__A; p__B']


def gen_text(r, nonempty=False):
    pool = [t for t in _TEXTS if t] if nonempty else _TEXTS
    return r.choice(pool)


def gen_metadata(r, ids, kind, allow_empty_text=True):
    """Per-category-homogeneous metadata, same categories on every id."""
    if kind == 'none':
        return None
    cats = []
    if kind == 'multi':
        kinds = r.sample(['text', 'int', 'float', 'bool', 'taxonomy',
                          'mixednum'], r.randint(2, 4))
    else:
        kinds = [kind]
    used = set()
    if kind == 'multi' and r.random() < .06:
        # many categories (more than ten)
        kinds = [r.choice(['text', 'int', 'float', 'bool'])
                 for _ in range(r.randint(11, 13))]
        for q, k in enumerate(kinds):
            cats.append(('cat%02d' % q if q % 2 else 'Cat %d/x' % q, k))
        kinds = []
    for k in kinds:
        if k == 'taxonomy':
            name = r.choice(['taxonomy', 'collapsed_ids'])
        else:
            name = r.choice(['env', 'pH', 'depth/cm', 'BarcodeSequence',
                             'Описание', 'a b', 'x'])
        while name in used:
            name = name + '_'
        used.add(name)
        cats.append((name, k))
    md = []
    # now and then every id's lineage is the same sequence of names cut into
    # levels at different places (the joined text coincides, the lists do not)
    regroup = None
    if r.random() < .1:
        regroup = [r.choice(_TAXA[:8]) for _ in range(r.randint(2, 4))]
    for _ in ids:
        d = {}
        for name, k in cats:
            if k == 'text':
                d[name] = gen_text(r, nonempty=not allow_empty_text)
            elif k == 'int':
                d[name] = r.randint(-5, 10 ** 6)
            elif k == 'float':
                d[name] = r.choice([0.5, 7.25, -1.125, 1e-3, 6.02e23,
                                    r.random()])
            elif k == 'bool':
                d[name] = r.random() < .5
            elif k == 'mixednum':
                # "all numeric": whole numbers as int, the rest as float (what
                # JSON tables typically hold); the first id gets an int
                d[name] = r.randint(0, 14) if (not md or r.random() < .5) \
                    else r.choice([6.5, 7.25, 0.125, 1e-3, 99.75])
            elif k == 'taxonomy':
                # mostly short lineages; now and then one with more than ten
                # levels (two-digit positions)
                ln = r.randint(1, 4) if r.random() < .93 else r.randint(11,
                                                                        14)
                d[name] = [r.choice(_TAXA) for _ in range(ln)]
                if regroup is not None:
                    lv = [regroup[0]]
                    for tok in regroup[1:]:
                        if r.random() < .5:
                            lv[-1] = lv[-1] + ';' + tok
                        else:
                            lv.append(tok)
                    d[name] = lv
        md.append(d)
    if len(cats) > 1 and r.random() < .4:
        # the same categories on every id, but not written in the same order
        # on every id (a mapping has no order to rely on)
        out = []
        for d in md:
            items = list(d.items())
            r.shuffle(items)
            out.append(dict(items))
        md = out
    return md


class Spec:
    """Reference description of a table (dense, exact)."""
    __slots__ = ('obs_ids', 'samp_ids', 'D', 'obs_md', 'samp_md', 'type',
                 'table_id', 'classes')

    def __init__(self, obs_ids, samp_ids, D, obs_md=None, samp_md=None,
                 type=None, table_id=None, classes=None):
        self.obs_ids = list(obs_ids)
        self.samp_ids = list(samp_ids)
        self.D = np.array(D, dtype=np.float64).reshape(len(self.obs_ids),
                                                       len(self.samp_ids))
        self.obs_md = obs_md
        self.samp_md = samp_md
        self.type = type
        self.table_id = table_id
        self.classes = dict(classes or {})

    def copy(self):
        return Spec(self.obs_ids, self.samp_ids, self.D.copy(),
                    copy.deepcopy(self.obs_md), copy.deepcopy(self.samp_md),
                    self.type, self.table_id, self.classes)

    def ids(self, axis):
        return self.obs_ids if axis == 'observation' else self.samp_ids

    def md(self, axis):
        return self.obs_md if axis == 'observation' else self.samp_md

    def vec(self, id_, axis):
        if axis == 'observation':
            return self.D[self.obs_ids.index(id_), :]
        return self.D[:, self.samp_ids.index(id_)]

    def describe(self):
        return {'obs_ids': self.obs_ids, 'samp_ids': self.samp_ids,
                'D': [[float_repr(v) for v in row] for row in self.D],
                'obs_md': _jsonable(self.obs_md),
                'samp_md': _jsonable(self.samp_md), 'type': self.type,
                'table_id': self.table_id, 'classes': self.classes}


def float_repr(v):
    v = float(v)
    return repr(v) if v == v and abs(v) != float('inf') else str(v)


def float_bits(v):
    return struct.unpack('<q', struct.pack('<d', float(v)))[0]


def _jsonable(o):
    if isinstance(o, dict):
        return {str(k): _jsonable(v) for k, v in o.items()}
    if isinstance(o, (list, tuple)):
        return [_jsonable(v) for v in o]
    if isinstance(o, np.generic):
        return o.item()
    if isinstance(o, np.ndarray):
        return o.tolist()
    return o


def gen_spec(r, max_n=6, max_m=6, id_classes=None, value_classes=None,
             md_kinds=None, types=True, min_n=1, min_m=1, shape=None,
             densities=(0.0, 0.1, 0.4, 0.8, 1.0), allow_all_zero=True,
             allow_empty_text=True):
    """A random table spec; records the generator classes it belongs to."""
    if shape is None:
        pick = r.random()
        if pick > .992 and max_n >= 5 and max_m >= 5:
            # rare: one axis beyond 256 ids (one-byte positions, >2-digit
            # indices), the other tiny
            n, m = r.randint(1, 4), r.randint(257, 400)
            if r.random() < .5:
                n, m = m, n
        elif pick > .955 and max_n >= 5 and max_m >= 5:
            # occasional medium / large axes: mechanisms that depend on the
            # number of ids (hash-table growth, multi-digit positions,
            # width of id arrays) are invisible on 7x7 tables
            hi = r.choice([12, 20, 40, 70])
            n, m = r.randint(8, hi), r.randint(8, hi)
            if r.random() < .3:
                n = r.randint(1, 3)
            elif r.random() < .3:
                m = r.randint(1, 3)
        elif pick < .08:
            n, m = 1, 1
        elif pick < .18:
            n, m = 1, r.randint(min_m, max_m)
        elif pick < .28:
            n, m = r.randint(min_n, max_n), 1
        else:
            n, m = r.randint(min_n, max_n), r.randint(min_m, max_m)
        n, m = max(n, min_n), max(m, min_m)
    else:
        n, m = shape
    idc_o = r.choice(id_classes or ID_CLASSES)
    idc_s = r.choice(id_classes or ID_CLASSES) if r.random() < .5 else idc_o
    vclass = r.choice(value_classes or VALUE_CLASSES)
    dens = r.choice(list(densities))
    if dens == 0.0 and not allow_all_zero:
        dens = 0.4
    force = r.choice([None, None, None, 'zero-row', 'zero-col', 'zero-both',
                      'single', 'diag'])
    D = gen_matrix(r, n, m, vclass, dens, force)
    if not allow_all_zero and not D.any():
        D[r.randrange(n), r.randrange(m)] = gen_value(r, vclass)
    obs_ids = gen_ids(r, n, idc_o, 'O')
    samp_ids = gen_ids(r, m, idc_s, 'S')
    same = False
    if shape is None and n == m and n <= 6 and r.random() < .15:
        # a square table whose two axes carry the same labels
        samp_ids = list(obs_ids)
        if r.random() < .5:
            r.shuffle(samp_ids)
        same = True
    kinds = md_kinds or MD_KINDS
    ok = r.choice(kinds)
    sk = r.choice(kinds)
    obs_md = gen_metadata(r, obs_ids, ok, allow_empty_text)
    samp_md = gen_metadata(r, samp_ids, sk, allow_empty_text)
    ttype = r.choice(TABLE_TYPES + [None, None]) if types else None
    classes = {'shape': '%dx%d' % (n, m), 'size': 'wide' if max(n, m) > 256 else 'big' if max(n, m) > 7
               else 'small', 'ids_obs': idc_o, 'ids_samp': idc_s,
               'values': vclass, 'density': dens, 'force': force,
               'md_obs': ok, 'md_samp': sk, 'same_ids_both_axes': same,
               'allzero': not D.any()}
    return Spec(obs_ids, samp_ids, D, obs_md, samp_md, ttype, None, classes)


def tracer_spec(r, n, m, with_md=True, id_class='ascii'):
    """Every cell distinct and non-zero, every id a distinct metadata payload."""
    D = np.array([[1000.0 * i + j + 1 for j in range(m)] for i in range(n)])
    obs_ids = gen_ids(r, n, id_class, 'O')
    samp_ids = gen_ids(r, m, id_class, 'S')
    obs_md = [{'tag': 'om-%s' % i, 'n': k} for k, i in enumerate(obs_ids)] \
        if with_md else None
    samp_md = [{'tag': 'sm-%s' % i, 'n': 100 + k}
               for k, i in enumerate(samp_ids)] if with_md else None
    return Spec(obs_ids, samp_ids, D, obs_md, samp_md, None, None,
                {'tracer': True, 'shape': '%dx%d' % (n, m)})


# ---------------------------------------------------------------- building

BUILD_ROUTES = ['dense', 'csr', 'csc', 'coo', 'triples', 'lists']


def build(biom, spec, route='dense', **kw):
    """Construct a real biom.Table from a Spec via the given route."""
    import scipy.sparse as sp
    Table = biom.Table
    D = spec.D
    omd = copy.deepcopy(spec.obs_md)
    smd = copy.deepcopy(spec.samp_md)
    args = dict(observation_metadata=omd, sample_metadata=smd,
                type=spec.type, table_id=spec.table_id)
    args.update(kw)
    if route == 'dense':
        data = D.copy()
    elif route == 'csr':
        data = sp.csr_matrix(D)
    elif route == 'csc':
        data = sp.csc_matrix(D)
    elif route == 'coo':
        data = sp.coo_matrix(D)
    elif route == 'triples':
        data = [[int(i), int(j), float(D[i, j])]
                for i, j in zip(*np.nonzero(D))]
        if not data:
            data = D.copy()
    elif route == 'lists':
        data = [list(map(float, row)) for row in D]
        args['input_is_dense'] = True
    else:
        raise ValueError(route)
    return Table(data, list(spec.obs_ids), list(spec.samp_ids), **args)


LAYOUTS = ['as-built', 'touch-sample', 'touch-obs', 'touch-both',
           'sort-unsort-samp', 'sort-unsort-obs', 'csr-stored-zeros',
           'csc-stored-zeros', 'csr-unsorted', 'transposed-twice',
           'filtered-keep-all', 'after-nnz', 'coo-input', 'deepcopied',
           'pickled', 'narrow-dtype-input', 'after-queries',
           'csr-duplicate-entries', 'csc-duplicate-entries',
           'table-subclass', 'zero-written-csr', 'zero-written-csc',
           'ids-partly-numbers', 'ids-object-dtype']


_SUBCLASS = {}


def layout_state(t):
    m = t.matrix_data
    fmt = m.getformat()
    srt = bool(getattr(m, 'has_sorted_indices', True))
    nz = int(np.count_nonzero(m.data)) if hasattr(m, 'data') else m.nnz
    stored = int(m.nnz)
    return '%s/%s/%s' % (fmt, 'sorted' if srt else 'unsorted',
                         'stored-zeros' if stored > nz else 'clean')


def apply_layout(biom, spec, recipe, r):
    """Build a table with the spec's content, reached through `recipe`."""
    import scipy.sparse as sp
    n, m = spec.D.shape
    if recipe == 'as-built':
        return build(biom, spec, 'dense')
    if recipe in ('zero-written-csr', 'zero-written-csc'):
        # a zero cell that is *stored*: the table is built with a value
        # there, which is then overwritten with 0 through the public
        # matrix_data handle (the constructor keeps no stored zeros itself)
        zr, zc = np.nonzero(spec.D == 0)
        if not len(zr):
            return build(biom, spec, 'dense')
        sp2 = spec.copy()
        picks = r.sample(range(len(zr)), min(len(zr), r.randint(1, 2)))
        for q in picks:
            sp2.D[zr[q], zc[q]] = 7.0
        t = build(biom, sp2, 'dense')
        if recipe == 'zero-written-csc' and m:
            t.data(t.ids()[0], axis='sample')           # leaves CSC behind
        mat = t.matrix_data
        if mat.getformat() not in ('csr', 'csc'):
            return build(biom, spec, 'dense')
        mat.sort_indices()
        for q in picks:
            i, j = int(zr[q]), int(zc[q])
            major, minor = (i, j) if mat.getformat() == 'csr' else (j, i)
            lo, hi = mat.indptr[major], mat.indptr[major + 1]
            pos = lo + int(np.searchsorted(mat.indices[lo:hi], minor))
            mat.data[pos] = 0.0
        return t
    if recipe == 'ids-object-dtype':
        # ids handed over as object arrays (what a pandas Index of text is)
        return biom.Table(spec.D.copy(),
                          np.array(list(spec.obs_ids), dtype=object),
                          np.array(list(spec.samp_ids), dtype=object),
                          copy.deepcopy(spec.obs_md),
                          copy.deepcopy(spec.samp_md), type=spec.type,
                          table_id=spec.table_id)
    if recipe == 'ids-partly-numbers':
        # id lists as user code has them: the ids that are whole numbers
        # given as ints, the others as text (numpy makes text of them all)
        def given(ids):
            conv = [int(i) if (i.isdigit() and i.isascii() and
                               str(int(i)) == i) else i for i in ids]
            if all(isinstance(c, int) for c in conv) or \
                    not any(isinstance(c, int) for c in conv):
                return list(ids)
            return conv
        return biom.Table(spec.D.copy(), given(spec.obs_ids),
                          given(spec.samp_ids), copy.deepcopy(spec.obs_md),
                          copy.deepcopy(spec.samp_md), type=spec.type,
                          table_id=spec.table_id)
    if recipe == 'coo-input':
        return build(biom, spec, 'coo')
    if recipe in ('csr-stored-zeros', 'csc-stored-zeros', 'csr-unsorted'):
        D = spec.D
        rows, cols = np.nonzero(D)
        rows, cols = list(rows), list(cols)
        vals = [D[i, j] for i, j in zip(rows, cols)]
        if recipe != 'csr-unsorted':
            zr, zc = np.nonzero(D == 0)
            for i, j in list(zip(zr, zc))[:3]:
                rows.append(i)
                cols.append(j)
                vals.append(0.0)
        coo = sp.coo_matrix((vals, (rows, cols)), shape=D.shape)
        mat = coo.tocsr() if recipe != 'csc-stored-zeros' else coo.tocsc()

        def unsort(mat):
            # reverse the order of the entries within each row
            for i in range(n):
                s, e = mat.indptr[i], mat.indptr[i + 1]
                mat.indices[s:e] = mat.indices[s:e][::-1].copy()
                mat.data[s:e] = mat.data[s:e][::-1].copy()
            mat.has_sorted_indices = False
        if recipe == 'csr-unsorted' and mat.nnz > 1:
            unsort(mat)
        t = biom.Table(mat, list(spec.obs_ids), list(spec.samp_ids),
                       copy.deepcopy(spec.obs_md),
                       copy.deepcopy(spec.samp_md), type=spec.type,
                       table_id=spec.table_id)
        if recipe == 'csr-unsorted' and t.matrix_data.nnz > 1 and \
                t.matrix_data.getformat() == 'csr' and \
                t.matrix_data.has_sorted_indices:
            # the constructor may put its copy in order; the public
            # matrix_data handle still lets a caller (or scipy, after some
            # operations) leave the entries of a row in any order
            unsort(t.matrix_data)
        return t
    if recipe == 'table-subclass':
        # user code subclasses Table; an instance of the subclass is a table
        # like any other
        sub = _SUBCLASS.get(id(biom.Table))
        if sub is None:
            sub = _SUBCLASS[id(biom.Table)] = type('LabTable', (biom.Table,),
                                                   {})
        return sub(spec.D.copy(), list(spec.obs_ids), list(spec.samp_ids),
                   copy.deepcopy(spec.obs_md), copy.deepcopy(spec.samp_md),
                   type=spec.type, table_id=spec.table_id)
    if recipe in ('csr-duplicate-entries', 'csc-duplicate-entries'):
        # scipy lets a compressed matrix store one coordinate several times;
        # the cell is the sum (here v = 2 + (v - 2), and a 3 + -3 on a cell
        # that is zero)
        D = spec.D
        rows, cols, vals = [], [], []
        for i, j in zip(*np.nonzero(D)):
            v = D[i, j]
            part = 2.0 if np.isfinite(v) and abs(v) < 2 ** 50 and \
                (v - 2.0) + 2.0 == v and r.random() < .5 else None
            if part is None:
                rows.append(i), cols.append(j), vals.append(v)
            else:
                rows += [i, i]
                cols += [j, j]
                vals += [part, v - part]
        zr, zc = np.nonzero(D == 0)
        for i, j in list(zip(zr, zc))[:2]:
            rows += [i, i]
            cols += [j, j]
            vals += [3.0, -3.0]
        rows = np.array(rows, dtype=np.int32)
        cols = np.array(cols, dtype=np.int32)
        vals = np.array(vals, dtype=float)
        if recipe.startswith('csr'):
            order = np.argsort(rows, kind='stable')
            indptr = np.concatenate([[0], np.cumsum(np.bincount(
                rows, minlength=n))]).astype(np.int32)
            mat = sp.csr_matrix((vals[order], cols[order], indptr),
                                shape=D.shape)
        else:
            order = np.argsort(cols, kind='stable')
            indptr = np.concatenate([[0], np.cumsum(np.bincount(
                cols, minlength=m))]).astype(np.int32)
            mat = sp.csc_matrix((vals[order], rows[order], indptr),
                                shape=D.shape)
        return biom.Table(mat, list(spec.obs_ids), list(spec.samp_ids),
                          copy.deepcopy(spec.obs_md),
                          copy.deepcopy(spec.samp_md), type=spec.type,
                          table_id=spec.table_id)
    if recipe == 'narrow-dtype-input':
        # the same numbers handed over in a narrower element type, when they
        # fit it exactly (int32 / int64 / float32 / bool)
        D = spec.D
        cands = []
        if np.all(D == np.floor(D)) and np.all(np.abs(D) < 2 ** 31):
            cands += [np.int32, np.int64]
        with np.errstate(all='ignore'):
            if np.all(D.astype(np.float32).astype(np.float64) == D):
                cands.append(np.float32)
        if np.all((D == 0) | (D == 1)):
            cands.append(np.bool_)
        if cands and D.size:
            dt = r.choice(cands)
            A = D.astype(dt)
            data = r.choice([lambda: A, lambda: sp.csr_matrix(A),
                             lambda: sp.csc_matrix(A)])()
            return biom.Table(data, list(spec.obs_ids), list(spec.samp_ids),
                              copy.deepcopy(spec.obs_md),
                              copy.deepcopy(spec.samp_md), type=spec.type,
                              table_id=spec.table_id)
        return build(biom, spec, 'dense')
    t = build(biom, spec, r.choice(['dense', 'csr', 'csc']))
    if recipe == 'deepcopied':
        t = copy.deepcopy(t)
    elif recipe == 'pickled':
        import pickle
        if spec.obs_md is None and spec.samp_md is None:
            t = pickle.loads(pickle.dumps(t))
        else:       # tables with metadata cannot be pickled (library limit)
            t = copy.deepcopy(t)
    elif recipe == 'after-queries':
        # read-only questions asked before the operation under test
        if n and m:
            t.exists(spec.obs_ids[0], 'observation')
            t.index(spec.samp_ids[-1], 'sample')
            t.get_value_by_ids(spec.obs_ids[-1], spec.samp_ids[0])
            t.sum('sample')
            t.is_empty()
            str(t)
            t.metadata(axis='observation')
            t.length('sample')
            t.get_table_density()
            t.nonzero_counts('observation')
            list(t.iter_pairwise(axis='sample')) if m <= 4 else None
            if np.all(np.any(spec.D != 0, axis=0)):  # no empty vector
                t.min('sample')
            if np.all(np.any(spec.D != 0, axis=1)):
                t.max('observation')
    if recipe == 'touch-sample':
        if n and m:
            t.data(spec.samp_ids[0], 'sample')
    elif recipe == 'touch-obs':
        if n and m:
            t.data(spec.obs_ids[0], 'observation')
    elif recipe == 'touch-both':
        if n and m:
            t.data(spec.obs_ids[0], 'observation')
            t.data(spec.samp_ids[-1], 'sample')
    elif recipe in ('sort-unsort-samp', 'sort-unsort-obs'):
        axis = 'sample' if recipe.endswith('samp') else 'observation'
        ids = list(spec.ids(axis))
        perm = ids[:]
        r.shuffle(perm)
        t = t.sort_order(perm, axis=axis).sort_order(ids, axis=axis)
    elif recipe == 'transposed-twice':
        t2 = t.transpose().transpose()
        t2.type = t.type
        t = t2
    elif recipe == 'filtered-keep-all':
        t = t.filter(lambda v, i, md: True, axis=r.choice(['sample',
                                                            'observation']),
                     inplace=False)
    elif recipe == 'after-nnz':
        t.nnz
    return t


def boundary_sizes(r, lo, hi, k):
    """k sizes between lo and hi that sit on or next to the boundaries a
    blocked / batched implementation is likely to use (powers of two,
    multiples of 10, 32, 50 and 100, each -1 / 0 / +1), drawn with `r`: the
    scale probes use them next to their fixed sizes, so that different seeds
    put different boundaries to the test."""
    pool = set()
    p2 = 2
    while p2 <= hi * 2:
        for m_ in (1, 3):
            for d in (-1, 0, 1):
                pool.add(p2 * m_ + d)
        p2 *= 2
    for step in (10, 32, 50, 100, 1000):
        for q in range(step, hi + step, step):
            for d in (-1, 0, 1):
                pool.add(q + d)
    pool = sorted(x for x in pool if lo <= x <= hi)
    return r.sample(pool, min(k, len(pool)))
