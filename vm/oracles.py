"""Shared oracles over the public API of a table."""
import numpy as np

from vm import snap
from vm.ctx import Violation


def check_against_spec(t, spec, sig, desc, fields=None, rtol=None):
    """Snapshot of t equals the reference spec."""
    kw = {}
    if fields is not None:
        kw['fields'] = fields
    d = snap.diff(snap.snap(t), snap.snap_spec(spec), rtol=rtol, **kw)
    if d:
        raise Violation(sig, '%s; case=%r' % ('; '.join(d), desc))


def check_by_ids(t, spec, sig, desc, max_cells=400):
    """Every per-id / per-cell public query answers from the reference:
    get_value_by_ids, data(id), metadata(id), index(id), exists(id)."""
    n, m = spec.D.shape
    for axis in ('observation', 'sample'):
        ids = spec.ids(axis)
        md = spec.md(axis)
        for k, i in enumerate(ids):
            if not t.exists(i, axis=axis):
                raise Violation(sig + '/exists', 'exists(%r,%s) is False for '
                                'a listed id; case=%r' % (i, axis, desc))
            if t.index(i, axis) != k:
                raise Violation(sig + '/index', 'index(%r,%s)=%r, position is '
                                '%d; case=%r' % (i, axis, t.index(i, axis), k,
                                                 desc))
            v = t.data(i, axis=axis, dense=True)
            if not snap.bits_equal(np.asarray(v).reshape(-1),
                                   spec.vec(i, axis)):
                raise Violation(sig + '/data', 'data(%r,%s)=%r, expected %r; '
                                'case=%r' % (i, axis, np.asarray(v).tolist(),
                                             spec.vec(i, axis).tolist(),
                                             desc))
            got = t.metadata(i, axis=axis)
            g = {} if got is None else snap.canon_md([got], 1)[0]
            e = {} if md is None else snap.canon_md([md[k]], 1)[0]
            if not snap.md_equal([g], [e]):
                raise Violation(sig + '/metadata', 'metadata(%r,%s)=%r, '
                                'expected %r; case=%r' % (i, axis, g, e,
                                                          desc))
    if n * m <= max_cells:
        for a, o in enumerate(spec.obs_ids):
            for b, s in enumerate(spec.samp_ids):
                v = t.get_value_by_ids(o, s)
                if not snap.bits_equal([v], [spec.D[a, b]]):
                    raise Violation(sig + '/cell', 'get_value_by_ids(%r,%r)='
                                    '%r, expected %r; case=%r' %
                                    (o, s, float(v), float(spec.D[a, b]),
                                     desc))


def unchanged(t, before, sig, desc, what='receiver'):
    d = snap.diff(snap.snap(t), before)
    if d:
        raise Violation(sig, '%s changed: %s; case=%r' % (what, '; '.join(d),
                                                          desc))
