"""Call-style variation (monitor-side workload widening).

The checks call the library mostly with keyword arguments.  Real callers
also pass the leading parameters positionally, in the order the
documentation gives them.  `install()` wraps the public methods listed in
DOC so that a call *coming from the harness* has a random-length run of its
keyword arguments turned into positional ones, following the DOCUMENTED
order below (written down here from the docstrings on purpose: taking the
order from the running code would follow a change that reorders
parameters instead of exposing it).  For code where the documented order is
the real order this changes nothing observable.

Deterministic: `reseed()` is called before every case with a generator
derived from (seed, property, case index)."""
import functools
import random
import sys

import numpy as _np

from vm import common

DOC = {
    'norm': ['axis', 'inplace'],
    'transform': ['f', 'axis', 'inplace'],
    'pa': ['inplace'],
    'rankdata': ['axis', 'inplace', 'method'],
    'filter': ['ids_to_keep', 'axis', 'invert', 'inplace'],
    'remove_empty': ['axis', 'inplace'],
    'head': ['n', 'm'],
    'sort_order': ['order', 'axis'],
    'sort': ['sort_f', 'axis'],
    'update_ids': ['id_map', 'axis', 'strict', 'inplace'],
    'align_to': ['other', 'axis'],
    'subsample': ['n', 'axis', 'by_id', 'with_replacement', 'seed'],
    'partition': ['f', 'axis', 'remove_empty', 'ignore_none'],
    'collapse': ['f', 'collapse_f', 'norm', 'min_group_size',
                 'include_collapsed_metadata', 'one_to_many',
                 'one_to_many_mode', 'one_to_many_md_key', 'strict', 'axis'],
    'merge': ['other', 'sample', 'observation', 'sample_metadata_f',
              'observation_metadata_f'],
    'concat': ['others', 'axis'],
    'add_metadata': ['md', 'axis'],
    'del_metadata': ['keys', 'axis'],
    'add_group_metadata': ['group_md', 'axis'],
    'group_metadata': ['axis'],
    'data': ['id', 'axis', 'dense'],
    'metadata': ['id', 'axis'],
    'ids': ['axis'],
    'index': ['id', 'axis'],
    'exists': ['id', 'axis'],
    'length': ['axis'],
    'sum': ['axis'],
    'min': ['axis'],
    'max': ['axis'],
    'nonzero_counts': ['axis', 'binary'],
    'reduce': ['f', 'axis'],
    'iter': ['dense', 'axis'],
    'iter_data': ['dense', 'axis'],
    'iter_pairwise': ['dense', 'axis', 'tri', 'diag'],
    'to_hdf5': ['h5grp', 'generated_by', 'compress', 'format_fs',
                'creation_date'],
    'to_json': ['generated_by', 'direct_io', 'creation_date'],
    'to_tsv': ['header_key', 'header_value', 'metadata_formatter',
               'observation_column_name', 'direct_io'],
    'to_dataframe': ['dense'],
    'metadata_to_dataframe': ['axis'],
    'get_value_by_ids': ['obs_id', 'samp_id'],
}
MODULE_DOC = {'concat': ['tables', 'axis']}     # biom.concat(tables, axis)

_RNG = [random.Random(0)]
STATS = {'calls_from_harness': 0, 'keywords_made_positional': 0,
         'flags_given_as_numpy_bool_or_int': 0}
_INSTALLED = [False]


def reseed(rng):
    _RNG[0] = rng


def _convert(order, a, k):
    pos = list(a)
    j = len(pos)
    changed = 0
    r = _RNG[0]
    while j < len(order) and order[j] in k and r.random() < .5:
        pos.append(k.pop(order[j]))
        j += 1
        changed += 1
    return tuple(pos), k, changed


def _wrap(f, order, skip_self):
    @functools.wraps(f)
    def w(*a, **k):
        if k and sys._getframe(1).f_code.co_filename.startswith(
                common.VERIF):
            STATS['calls_from_harness'] += 1
            head = a[:1] if skip_self else ()
            rest = a[1:] if skip_self else a
            k = dict(k)
            # a flag is a flag whether it is True / False, the numpy bool a
            # comparison returns, or 1 / 0
            for name_, v in list(k.items()):
                if type(v) is bool and _RNG[0].random() < .12:
                    k[name_] = _np.bool_(v) if _RNG[0].random() < .6 \
                        else int(v)
                    STATS['flags_given_as_numpy_bool_or_int'] += 1
            rest, k, n = _convert(order, rest, k)
            STATS['keywords_made_positional'] += n
            a = head + rest
        return f(*a, **k)
    w._vm_callstyle = True
    return w


def install(biom):
    if _INSTALLED[0]:
        return
    _INSTALLED[0] = True
    T = biom.table.Table
    for name, order in DOC.items():
        f = T.__dict__.get(name)
        if f is None or not callable(f) or isinstance(f, (classmethod,
                                                          staticmethod)):
            continue
        setattr(T, name, _wrap(f, order, True))
    for name, order in MODULE_DOC.items():
        f = getattr(biom, name, None)
        if f is not None:
            setattr(biom, name, _wrap(f, order, False))
