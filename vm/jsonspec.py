"""Independent decoder of BIOM 1.0 JSON documents (stdlib json only)."""
import json

import numpy as np

REQUIRED = ['id', 'format', 'format_url', 'type', 'generated_by', 'date',
            'rows', 'columns', 'matrix_type', 'matrix_element_type', 'shape',
            'data']


class NotStrictJSON(ValueError):
    pass


def _no_const(x):
    raise NotStrictJSON('non-JSON constant %s' % x)


def loads_strict(text):
    """RFC 8259 parse: rejects NaN/Infinity; duplicate keys are allowed."""
    try:
        return json.loads(text, parse_constant=_no_const)
    except NotStrictJSON:
        raise
    except ValueError as e:
        raise NotStrictJSON(str(e))


def decode(doc):
    """doc: parsed JSON object. Returns dict(obs_ids, samp_ids, D, obs_md,
    samp_md, type, ...) or raises ValueError describing the problem."""
    for k in REQUIRED:
        if k not in doc:
            raise ValueError('missing key %r' % k)
    n, m = doc['shape']
    rows, cols = doc['rows'], doc['columns']
    if len(rows) != n or len(cols) != m:
        raise ValueError('shape %r but %d rows / %d columns' %
                         (doc['shape'], len(rows), len(cols)))
    D = np.zeros((n, m), dtype=np.float64)
    if doc['matrix_type'] == 'sparse':
        for ent in doc['data']:
            i, j, v = ent
            if not (0 <= i < n and 0 <= j < m):
                raise ValueError('coordinate %r outside shape' % (ent,))
            D[i, j] += float(v)
    elif doc['matrix_type'] == 'dense':
        if len(doc['data']) != n:
            raise ValueError('dense data has %d rows' % len(doc['data']))
        for i, row in enumerate(doc['data']):
            if len(row) != m:
                raise ValueError('dense row %d has %d cols' % (i, len(row)))
            D[i, :] = [float(v) for v in row]
    else:
        raise ValueError('matrix_type %r' % doc['matrix_type'])
    return {'obs_ids': [r['id'] for r in rows],
            'samp_ids': [c['id'] for c in cols], 'D': D,
            'obs_md': [r.get('metadata') for r in rows],
            'samp_md': [c.get('metadata') for c in cols],
            'type': doc['type'], 'id': doc['id'],
            'generated_by': doc['generated_by'], 'date': doc['date'],
            'format': doc['format'], 'format_url': doc['format_url'],
            'matrix_element_type': doc['matrix_element_type']}
