"""./check <ID> [--tier quick|thorough] [--replay file]"""
import argparse
import importlib
import json
import os
import sys


def main():
    ap = argparse.ArgumentParser()
    ap.add_argument('id')
    ap.add_argument('--tier', default=os.environ.get('VERIF_TIER', 'quick'),
                    choices=['quick', 'thorough'])
    ap.add_argument('--replay')
    ap.add_argument('--jobs', type=int, default=0)
    a = ap.parse_args()
    cid = a.id.upper()
    if a.replay:
        from vm import ctx as C
        rec = json.load(open(a.replay))
        if rec.get('index') is None:
            # aggregate verdict (statistical monitor, worker crash): the
            # witness is the whole run at that seed and tier
            os.environ['VERIF_SEED'] = str(rec.get('seed', 0))
            from vm import orchestrate
            return orchestrate.run(cid, rec.get('tier', 'quick'))
        want = str(rec.get('hashseed') or 0)
        if os.environ.get('PYTHONHASHSEED') != want:
            # the hash seed is fixed at interpreter start: start again
            os.environ['PYTHONHASHSEED'] = want
            os.execv(sys.executable, [sys.executable, '-m', 'vm.main'] +
                     sys.argv[1:])
        mod = importlib.import_module('vm.checks.' + cid.lower())
        ctx = C.Ctx(cid, rec['tier'], rec['seed'], replay=True)
        if hasattr(mod, 'setup'):
            mod.setup(ctx)
        C.run_indices(mod, ctx, [rec['index']])
        if ctx.violations:
            for v in ctx.violations:
                print('REPRODUCED %s: %s' % (v['sig'], v['message'][:1500]))
            print('VIOLATION property=%s replay=%s' % (cid, a.replay))
            return 1
        print('not reproduced (case index %s, seed %s)' % (rec['index'],
                                                          rec['seed']))
        return 0
    from vm import orchestrate
    return orchestrate.run(cid, a.tier, jobs=a.jobs)


if __name__ == '__main__':
    sys.exit(main())
