"""Observable snapshot of a biom.Table and comparison against a Spec/snapshot.

The matrix is read with SciPy's own decoder (matrix_data.toarray()): it is
independent of every biom accessor, does not change the stored layout, and
handles unsorted indices, duplicates and stored zeros.
"""
import numpy as np


def canon_value(v):
    if isinstance(v, np.generic):
        return v.item()
    if isinstance(v, np.ndarray):
        return [canon_value(x) for x in v.tolist()]
    if isinstance(v, (list, tuple)):
        return [canon_value(x) for x in v]
    if isinstance(v, dict):
        return {k: canon_value(x) for k, x in v.items()}
    if isinstance(v, bytes):
        return v.decode('utf8')
    return v


def canon_md(md, n):
    """Whole-axis None == n empty dicts; entries become plain dicts."""
    if md is None:
        return [{} for _ in range(n)]
    out = []
    for e in md:
        if e is None:
            out.append({})
        else:
            out.append({k: canon_value(v) for k, v in dict(e).items()})
    return out


class Snap:
    __slots__ = ('obs_ids', 'samp_ids', 'D', 'obs_md', 'samp_md', 'type')

    def __init__(self, obs_ids, samp_ids, D, obs_md, samp_md, type_):
        self.obs_ids = obs_ids
        self.samp_ids = samp_ids
        self.D = D
        self.obs_md = obs_md
        self.samp_md = samp_md
        self.type = type_

    def ids(self, axis):
        return self.obs_ids if axis == 'observation' else self.samp_ids

    def md(self, axis):
        return self.obs_md if axis == 'observation' else self.samp_md


def snap(t):
    obs_ids = [str(i) for i in t.ids(axis='observation')]
    samp_ids = [str(i) for i in t.ids()]
    D = np.array(t.matrix_data.toarray(), dtype=np.float64).reshape(
        t.matrix_data.shape)
    return Snap(obs_ids, samp_ids, D,
                canon_md(t.metadata(axis='observation'), len(obs_ids)),
                canon_md(t.metadata(), len(samp_ids)), t.type)


def snap_spec(spec):
    return Snap(list(spec.obs_ids), list(spec.samp_ids),
                np.array(spec.D, dtype=np.float64),
                canon_md(spec.obs_md, len(spec.obs_ids)),
                canon_md(spec.samp_md, len(spec.samp_ids)), spec.type)


def bits_equal(a, b):
    a = np.ascontiguousarray(a, dtype=np.float64)
    b = np.ascontiguousarray(b, dtype=np.float64)
    if a.shape != b.shape:
        return False
    # -0.0 == 0.0 for our purposes (eliminate_zeros treats both as zero)
    a = a + 0.0
    b = b + 0.0
    return bool(np.array_equal(a.view(np.int64), b.view(np.int64)))


def md_equal(a, b):
    if len(a) != len(b):
        return False
    return all(_md_entry_equal(x, y) for x, y in zip(a, b))


def _md_entry_equal(x, y):
    if set(x) != set(y):
        return False
    return all(_val_equal(x[k], y[k]) for k in x)


def _val_equal(a, b):
    if isinstance(a, bool) != isinstance(b, bool):
        return False
    if isinstance(a, float) and isinstance(b, float):
        return a == b or (a != a and b != b)
    if isinstance(a, list) and isinstance(b, list):
        return len(a) == len(b) and all(_val_equal(p, q)
                                        for p, q in zip(a, b))
    if isinstance(a, dict) and isinstance(b, dict):
        return _md_entry_equal(a, b)
    if type(a) is not type(b):
        # int vs float with equal value counts as different kinds only when
        # the caller asks for strictness; metadata kinds are compared by value
        # and by "is it a number"
        num = (int, float)
        if isinstance(a, num) and isinstance(b, num) and \
                not isinstance(a, bool) and not isinstance(b, bool):
            return a == b
        return False
    return a == b


def diff(a, b, fields=('obs_ids', 'samp_ids', 'D', 'obs_md', 'samp_md',
                       'type'), rtol=None):
    """Returns a list of human-readable differences (empty == equal)."""
    out = []
    if 'obs_ids' in fields and a.obs_ids != b.obs_ids:
        out.append('observation ids differ: %r vs %r' % (a.obs_ids,
                                                         b.obs_ids))
    if 'samp_ids' in fields and a.samp_ids != b.samp_ids:
        out.append('sample ids differ: %r vs %r' % (a.samp_ids, b.samp_ids))
    if 'D' in fields:
        if a.D.shape != b.D.shape:
            out.append('matrix shape differs: %r vs %r' % (a.D.shape,
                                                           b.D.shape))
        elif rtol is None:
            if not bits_equal(a.D, b.D):
                idx = np.argwhere((a.D + 0.0).view(np.int64) !=
                                  (b.D + 0.0).view(np.int64))
                i, j = idx[0]
                out.append('matrix differs at %d cells, first (%d,%d): '
                           '%r vs %r' % (len(idx), i, j, float(a.D[i, j]),
                                         float(b.D[i, j])))
        else:
            if not np.allclose(a.D, b.D, rtol=rtol, atol=0):
                out.append('matrix differs beyond rtol=%g: %r vs %r' %
                           (rtol, a.D.tolist(), b.D.tolist()))
    if 'obs_md' in fields and not md_equal(a.obs_md, b.obs_md):
        out.append('observation metadata differ: %r vs %r' % (a.obs_md,
                                                              b.obs_md))
    if 'samp_md' in fields and not md_equal(a.samp_md, b.samp_md):
        out.append('sample metadata differ: %r vs %r' % (a.samp_md,
                                                         b.samp_md))
    if 'type' in fields and a.type != b.type:
        out.append('type differs: %r vs %r' % (a.type, b.type))
    return out
