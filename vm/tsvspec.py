"""Independent decoder of the classic tab-separated table text."""
import numpy as np


def decode(text, has_md_column=False, plain_header=False):
    """Header = last '#' line before the first data line; with
    `plain_header` (the caller named the id column without a '#') the first
    line after the '#' lines. Returns (obs_ids, samp_ids, D, md_name,
    md_values)."""
    lines = text.split('\n')
    header = None
    data = []
    for ln in lines:
        if not ln.strip():
            continue
        if ln.startswith('#') and not data:
            header = ln
            continue
        data.append(ln)
    if plain_header:
        if not data:
            raise ValueError('no header line')
        header = data.pop(0)
    if header is None:
        raise ValueError('no header line')
    h = header.split('\t')
    cols = h[1:]
    md_name = None
    if has_md_column:
        md_name = cols[-1]
        cols = cols[:-1]
    obs, rows, mds = [], [], []
    for ln in data:
        f = ln.split('\t')
        obs.append(f[0])
        vals = f[1:]
        if has_md_column:
            mds.append(vals[-1])
            vals = vals[:-1]
        if len(vals) != len(cols):
            raise ValueError('row %r has %d values for %d samples' %
                             (f[0], len(vals), len(cols)))
        rows.append([float(v) for v in vals])
    D = np.array(rows, dtype=np.float64).reshape(len(obs), len(cols))
    return obs, cols, D, md_name, mds
