"""python -m vm.worker <ID> <tier> <seed> <shard> <nshards> <outfile>"""
import importlib
import json
import sys


def main(argv):
    cid, tier, seed, shard, nshards, out = argv
    seed, shard, nshards = int(seed), int(shard), int(nshards)
    from vm import ctx as C
    mod = importlib.import_module('vm.checks.' + cid.lower())
    ctx = C.Ctx(cid, tier, seed, shard, nshards)
    if hasattr(mod, 'setup'):
        mod.setup(ctx)
    total = mod.plan(tier)['cases']
    C.run_indices(mod, ctx, range(shard, total, nshards))
    if hasattr(mod, 'stress') and shard == 0:
        C.run_indices(type('S', (), {'run_case': staticmethod(
            lambda c, i: mod.stress(c))}), ctx, ['stress'])
    if hasattr(mod, 'finish'):
        mod.finish(ctx)
    res = ctx.result()
    from vm import build
    res['kernels'] = build._state['info']
    with open(out, 'w') as f:
        json.dump(res, f, default=str)


if __name__ == '__main__':
    main(sys.argv[1:])
