"""Shard a check over subprocesses, merge, classify, write evidence."""
import concurrent.futures as cf
import hashlib
import importlib
import json
import os
import shutil
import subprocess
import sys
import tempfile
import time

from vm import common

HASHSEEDS = ['0', '1', '2', '3', '7', '11', '42', '1234']


def _run_shard(cid, tier, seed, shard, nshards, outdir, timeout):
    out = os.path.join(outdir, 'shard%d.json' % shard)
    env = dict(os.environ)
    env['PYTHONPATH'] = common.VERIF + os.pathsep + env.get('PYTHONPATH', '')
    # string-hash order (set / dict-of-str iteration) differs per shard, the
    # same way in every run; the replay file records it
    env['PYTHONHASHSEED'] = HASHSEEDS[shard % len(HASHSEEDS)]
    env['LC_ALL'] = 'C'
    env['PYTHONDONTWRITEBYTECODE'] = '1'
    env['OMP_NUM_THREADS'] = '1'
    env['OPENBLAS_NUM_THREADS'] = '1'
    cmd = [common.PY, '-m', 'vm.worker', cid, tier, str(seed), str(shard),
           str(nshards), out]
    t0 = time.time()
    try:
        p = subprocess.run(cmd, env=env, cwd=common.VERIF, timeout=timeout,
                           capture_output=True, text=True)
    except subprocess.TimeoutExpired:
        return {'shard': shard, 'status': 'timeout', 'wall': time.time() - t0}
    if p.returncode != 0 or not os.path.exists(out):
        return {'shard': shard, 'status': 'crash', 'rc': p.returncode,
                'stderr': p.stderr[-3000:], 'wall': time.time() - t0,
                'hashseed': env['PYTHONHASHSEED']}
    with open(out) as f:
        res = json.load(f)
    res.update(shard=shard, status='ok', hashseed=env['PYTHONHASHSEED'])
    return res


def load_known():
    if os.path.exists(common.KNOWN):
        with open(common.KNOWN) as f:
            return json.load(f)
    return {'findings': [], 'fixed': []}


def classify(cid, sig, known):
    for k in known.get('findings', []):
        if k.get('property') == cid and sig.startswith(k.get('sig_prefix',
                                                             '\0')):
            return k
    return None


def run(cid, tier, jobs=0):
    t0 = time.time()
    seed = common.seed_from_env()
    mod = importlib.import_module('vm.checks.' + cid.lower())
    plan = mod.plan(tier)
    nshards = plan.get('shards', 16)
    jobs = jobs or min(os.cpu_count() or 4, 16, nshards)
    timeout = plan.get('timeout', 900 if tier == 'quick' else 3600)
    base = os.path.join(common.BUILD, 'run')
    os.makedirs(base, exist_ok=True)
    os.makedirs(common.EVIDENCE, exist_ok=True)
    outdir = tempfile.mkdtemp(prefix='%s-' % cid, dir=base)
    # build kernels once, before the shards race to do it
    from vm import build
    kinfo = {k: m for k, (s, m) in build.build_all('plain').items()}
    san_future = None
    try:
        with cf.ThreadPoolExecutor(jobs + 2) as ex:
            if hasattr(mod, 'san_indices') and \
                    os.environ.get('VERIF_NO_SAN') != '1':
                # sanitizer lane (DESIGN.md section 6) alongside the shards
                from vm import sanlane
                san_future = ex.submit(sanlane.run, cid, tier, seed,
                                       mod.san_indices(tier), timeout)
            lane_future = ex.submit(mod.extra_lane, tier, seed) \
                if hasattr(mod, 'extra_lane') else None
            results = list(ex.map(
                lambda s: _run_shard(cid, tier, seed, s, nshards, outdir,
                                     timeout), range(nshards)))
            san = san_future.result() if san_future else None
            lane = lane_future.result() if lane_future else None
    finally:
        shutil.rmtree(outdir, ignore_errors=True)

    known = load_known()
    evaluations = 0
    fps = set()
    counters = {}
    classes = {}
    skips = {}
    reach = {}
    samples = []
    violations = []
    inconclusive = []
    extra = {}
    for r in results:
        if r['status'] == 'timeout':
            inconclusive.append('shard %d hit the %ds watchdog' %
                                (r['shard'], timeout))
            continue
        if r['status'] == 'crash':
            violations.append({
                'property': cid, 'sig': '%s/worker-crash' % cid,
                'message': 'worker exited %s: %s' % (r.get('rc'),
                                                     r.get('stderr')),
                'index': None, 'seed': seed, 'tier': tier,
                'shard': r['shard'], 'nshards': nshards,
                'hashseed': r.get('hashseed')})
            continue
        evaluations += r['evaluations']
        fps.update(r['fps'])
        for k, v in r['counters'].items():
            counters[k] = counters.get(k, 0) + v
        for g, d in r['classes'].items():
            gd = classes.setdefault(g, {})
            for k, v in d.items():
                gd[k] = gd.get(k, 0) + v
        for k, v in r['skips'].items():
            skips[k] = skips.get(k, 0) + v
        for k, v in r.get('reach', {}).items():
            reach[k] = reach.get(k, 0) + v
        for k, v in r.get('extra', {}).items():
            extra.setdefault(k, []).append(v)
        if len(samples) < 5:
            samples.extend(r['samples'][:5 - len(samples)])
        for v in r['violations']:
            v['hashseed'] = r.get('hashseed')
            violations.append(v)

    # inconclusive conditions declared by the check
    for name in getattr(mod, 'REQUIRED', []):
        if counters.get(name, 0) == 0:
            inconclusive.append('required monitor/anchor %r was never '
                                'reached' % name)
    for name in getattr(mod, 'ANCHORS', []):
        # an anchor names a mechanism, not one code object: a function
        # turned into a class (`errstate` -> `errstate.__enter__`) or given
        # inner helpers still counts as executed
        if reach and not any(k.endswith(':' + name) or
                             (':' + name + '.') in k for k in reach):
            inconclusive.append('anchored mechanism %r was never executed' %
                                name)
    min_nt = plan.get('min_nontrivial', 2)
    if len(fps) < min_nt:
        inconclusive.append('only %d distinct non-trivial cases (< %d)' %
                            (len(fps), min_nt))
    if hasattr(mod, 'verdict'):
        # check-specific aggregate oracle (e.g. statistical tests)
        for v in mod.verdict(counters, extra, tier) or []:
            v.setdefault('property', cid)
            v.setdefault('seed', seed)
            v.setdefault('tier', tier)
            v.setdefault('index', None)
            violations.append(v)

    # sanitizer lane (DESIGN.md section 6)
    if lane is not None:
        for v in lane[0]:
            v.update(property=cid, index=None, seed=seed, tier=tier)
            violations.append(v)
        inconclusive.extend(lane[2])
    if san is not None:
        for kind, top, excerpt in san['reports']:
            violations.append({
                'property': cid, 'sig': '%s/sanitizer/%s@%s' % (cid, kind,
                                                               top),
                'message': excerpt, 'index': None, 'seed': seed,
                'tier': tier})
        for v in san['info'].pop('violation_records', []):
            v['sig'] += '/on-sanitizer-build'
            violations.append(v)
        if san['status'] == 'crash':
            violations.append({
                'property': cid, 'sig': '%s/sanitizer/worker-crash' % cid,
                'message': json.dumps(san['info'])[-2000:], 'index': None,
                'seed': seed, 'tier': tier})

    # classify
    by_sig = {}
    for v in violations:
        by_sig.setdefault(v['sig'], []).append(v)
    known_seen = []
    new = []
    for sig, vs in sorted(by_sig.items()):
        k = classify(cid, sig, known)
        if k is not None:
            known_seen.append((k, len(vs)))
        else:
            new.append((sig, vs))
    lines = []
    seen_keys = set()
    for k, n in known_seen:
        if k['key'] in seen_keys:
            continue
        seen_keys.add(k['key'])
        lines.append('KNOWN-FINDING: property=%s %s' % (cid, k['what']))
    replay_paths = []
    for sig, vs in new[:10]:
        v = vs[0]
        d = os.path.join(common.REPLAYS, cid)
        os.makedirs(d, exist_ok=True)
        name = hashlib.sha1((sig + repr(v.get('index')) +
                             repr(seed)).encode()).hexdigest()[:12]
        path = os.path.join(d, name + '.json')
        v = dict(v, count_this_run=len(vs))
        with open(path, 'w') as f:
            json.dump(v, f, indent=1, default=str)
        replay_paths.append(path)
        lines.append('# %s (%d cases): %s' % (sig, len(vs),
                                              v['message'][:600].replace(
                                                  '\n', ' | ')))
        lines.append('VIOLATION property=%s replay=%s' % (cid, path))

    if new:
        status, rc = 'violated', 1
    elif inconclusive:
        status, rc = 'inconclusive', 2
        for reason in inconclusive:
            lines.append('INCONCLUSIVE property=%s reason=%s' % (cid, reason))
    else:
        status, rc = 'held', 0

    wall = time.time() - t0
    cov = {
        'evaluations': evaluations,
        'distinct_nontrivial': len(fps),
        'rule': getattr(mod, 'RULE', ''),
        'samples': samples or ['(no case executed)'],
        'exhaustive': bool(plan.get('exhaustive', False)),
        'monitor_counters': dict(sorted(counters.items())),
        'generator_classes_hit': classes,
        'out_of_domain_skips': skips,
        'status': status,
        'inconclusive_reasons': inconclusive,
        'known_findings_reobserved': [
            {'key': k['key'], 'cases': n} for k, n in known_seen],
        'new_violation_signatures': [s for s, _ in new],
        'shards': nshards,
        'pythonhashseeds': sorted({r.get('hashseed') for r in results
                                   if r.get('hashseed') is not None}),
        'kernels': kinfo,
        'biom_functions_executed': len(reach),
        'biom_function_calls': dict(sorted(reach.items(),
                                           key=lambda kv: -kv[1])[:45]),
        'biom_functions_executed_list': sorted(reach),
        'anchors_required': getattr(mod, 'ANCHORS', []),
        'extra_lane': None if lane is None else lane[1],
        'sanitizer_lane': None if san is None else {
            'status': san['status'], 'reports': len(san['reports']),
            'info': san['info']},
        'repo': common.REPO,
    }
    if hasattr(mod, 'summarize'):
        cov.update(mod.summarize(counters, extra, tier) or {})
    ev = {
        'property_id': cid, 'tier': tier, 'seed': seed,
        'level': getattr(mod, 'LEVEL', 'exploration'),
        'coverage': cov,
        'assumptions': getattr(mod, 'ASSUMPTIONS', []),
        'wall_s': round(wall, 2),
        'violations': len(new),
    }
    if evaluations < 1:
        cov['evaluations'] = 0
    tmp = os.path.join(common.EVIDENCE, '.%s.json.tmp' % cid)
    with open(tmp, 'w') as f:
        json.dump(ev, f, indent=1, default=str)
    os.replace(tmp, os.path.join(common.EVIDENCE, '%s.json' % cid))
    print('%s %s tier=%s seed=%d: %s; %d evaluations, %d distinct '
          'non-trivial, %.1fs' % (cid, getattr(mod, 'TITLE', ''), tier, seed,
                                  status, evaluations, len(fps), wall))
    top = sorted(counters.items())
    print('  monitors: ' + ', '.join('%s=%d' % kv for kv in top[:40]))
    for ln in lines:
        print(ln)
    sys.stdout.flush()
    return rc
