"""Per-worker context: RNG derivation, case accounting, violations, scratch."""
import atexit
import json
import os
import sys
import shutil
import tempfile
import time
import traceback

from vm import common


class Violation(Exception):
    """Raised by oracles; carries a mechanism signature and a message."""

    def __init__(self, sig, message, detail=None):
        super().__init__('%s: %s' % (sig, message))
        self.sig = sig
        self.message = message
        self.detail = detail


class Reach:
    """M7: which functions of the repository under test actually ran, and how
    often (sys.monitoring PY_START; code objects outside <repo>/biom, and its
    tests, are DISABLEd at their first event so the overhead stays small)."""

    def __init__(self):
        self.counts = {}
        self.on = False

    def start(self):
        mon = getattr(sys, 'monitoring', None)
        if mon is None:
            return
        root = os.path.join(common.REPO, 'biom') + os.sep
        tests = os.path.join(root, 'tests') + os.sep
        counts = self.counts

        def on_start(code, offset):
            fn = code.co_filename
            if not fn.startswith(root) or fn.startswith(tests):
                return mon.DISABLE
            key = '%s:%s' % (fn[len(root):], code.co_qualname)
            counts[key] = counts.get(key, 0) + 1
        try:
            mon.use_tool_id(mon.PROFILER_ID, 'vm-reach')
            mon.register_callback(mon.PROFILER_ID, mon.events.PY_START,
                                  on_start)
            mon.set_events(mon.PROFILER_ID, mon.events.PY_START)
            self.on = True
        except Exception:
            self.on = False

    def stop(self):
        mon = getattr(sys, 'monitoring', None)
        if mon is not None and self.on:
            mon.set_events(mon.PROFILER_ID, 0)
            mon.free_tool_id(mon.PROFILER_ID)
            self.on = False


class Ctx:
    def __init__(self, check_id, tier, seed, shard=0, nshards=1,
                 replay=False):
        self.id = check_id
        self.tier = tier
        self.seed = seed
        self.shard = shard
        self.nshards = nshards
        self.replay = replay
        self.evaluations = 0
        self.fps = set()
        self.counters = {}
        self.samples = []
        self.violations = []
        self.classes = {}
        self.skips = {}
        self._tmp = None
        self.biom = common.import_biom()
        self.t0 = time.time()
        self.extra = {}
        self.reach = Reach()
        if not replay and os.environ.get('VERIF_NO_REACH') != '1':
            self.reach.start()

    # ------------------------------------------------------------ randomness
    def rng(self, index, *more):
        return common.sub_rng(self.seed, self.id, index, *more)

    # ------------------------------------------------------------ accounting
    def count(self, name, k=1):
        self.counters[name] = self.counters.get(name, 0) + k

    def cls(self, group, value):
        g = self.classes.setdefault(group, {})
        g[str(value)] = g.get(str(value), 0) + 1

    def skip(self, reason):
        self.skips[reason] = self.skips.get(reason, 0) + 1

    def case(self, desc, nontrivial, fp=None):
        """Register one executed case (call once per evaluation)."""
        self.evaluations += 1
        if nontrivial:
            self.fps.add(fp or common.fingerprint(desc))
        if len(self.samples) < 3 and (nontrivial or not self.samples):
            self.samples.append(desc)

    def violation(self, index, sig, message, desc=None, detail=None):
        rec = {'property': self.id, 'sig': sig, 'message': message[:4000],
               'index': index, 'seed': self.seed, 'tier': self.tier,
               'case': desc, 'detail': detail,
               'hashseed': os.environ.get('PYTHONHASHSEED')}
        self.violations.append(rec)
        self.count('violations')

    # --------------------------------------------------------------- scratch
    @property
    def tmp(self):
        if self._tmp is None:
            base = '/dev/shm' if os.path.isdir('/dev/shm') and \
                os.access('/dev/shm', os.W_OK) else None
            if base is None:
                base = os.path.join(common.BUILD, 'tmp')
                os.makedirs(base, exist_ok=True)
            self._tmp = tempfile.mkdtemp(prefix='vm-%s-' % self.id, dir=base)
            atexit.register(shutil.rmtree, self._tmp, True)
        return self._tmp

    def path(self, name):
        return os.path.join(self.tmp, name)

    # ---------------------------------------------------------------- output
    def result(self):
        self.reach.stop()
        from vm import callstyle
        for k, v in callstyle.STATS.items():
            self.counters[k] = self.counters.get(k, 0) + v
        from vm import clistyle
        for k, v in clistyle.STATS.items():
            if v:
                self.counters[k] = self.counters.get(k, 0) + v
        return {'reach': self.reach.counts,
                'evaluations': self.evaluations, 'fps': sorted(self.fps),
                'counters': self.counters, 'samples': self.samples,
                'violations': self.violations, 'classes': self.classes,
                'skips': self.skips, 'extra': self.extra,
                'wall_s': time.time() - self.t0}


def run_indices(mod, ctx, indices):
    """Generic loop: one run_case per index; escaping exceptions are
    reported (never swallowed)."""
    from vm import callstyle
    for index in indices:
        callstyle.reseed(common.sub_rng(ctx.seed, ctx.id, index, 'callstyle'))
        try:
            mod.run_case(ctx, index)
        except Violation as v:
            ctx.violation(index, v.sig, v.message, detail=v.detail,
                          desc=getattr(v, 'desc', None))
        except Exception as e:  # noqa
            tb = traceback.extract_tb(e.__traceback__)
            inner = [f for f in tb if '/biom/' in f.filename]
            where = inner[-1] if inner else tb[-1]
            sig = '%s/unexpected-%s@%s:%s' % (
                ctx.id, type(e).__name__, os.path.basename(where.filename),
                where.name)
            ctx.violation(index, sig, ''.join(
                traceback.format_exception(type(e), e, e.__traceback__))[-3000:])
