"""vm -- verification monitors for biocore/biom-format (see /verif/DESIGN.md)."""
