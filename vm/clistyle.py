"""Command-line style variation (workload widening, like vm/callstyle.py).

The checks invoke the commands through click's CliRunner, naturally always
spelling an option the same way and giving the options in the same order.
`install()` wraps CliRunner.invoke so that every invocation coming from the
harness (a) spells each option by its short or its long documented name at
random and (b) gives the options in a random order.  Names, aliases and
which options are flags are written down here from `biom <cmd> --help`
(not introspected from the running code: an alias that disappears or an
option that starts to depend on its position is then exposed, not
followed).  Deterministic per case (uses callstyle's per-case generator)."""
import functools

ALIASES = {
    'add-metadata': {'-i': '--input-fp', '-o': '--output-fp',
                     '-m': '--sample-metadata-fp'},
    'convert': {'-i': '--input-fp', '-o': '--output-fp',
                '-m': '--sample-metadata-fp'},
    'export-metadata': {'-i': '--input-fp', '-m': '--sample-metadata-fp'},
    'from-uc': {'-i': '--input-fp', '-o': '--output-fp'},
    'head': {'-i': '--input-fp', '-o': '--output-fp', '-n': '--n-obs',
             '-m': '--n-samp'},
    'normalize-table': {'-i': '--input-fp', '-o': '--output-fp',
                        '-r': '--relative-abund',
                        '-p': '--presence-absence', '-a': '--axis'},
    'subset-table': {'-i': '--input-hdf5-fp', '-j': '--input-json-fp',
                     '-a': '--axis', '-s': '--ids', '-o': '--output-fp'},
    'summarize-table': {'-i': '--input-fp', '-o': '--output-fp'},
    'table-ids': {'-i': '--input-fp'},
    'validate-table': {'-i': '--input-fp', '-f': '--format-version'},
}
FLAGS = {'--to-json', '--to-hdf5', '--to-tsv', '--collapsed-samples',
         '--collapsed-observations', '--output-as-json', '--qualitative',
         '--observations', '-r', '--relative-abund', '-p',
         '--presence-absence'}
STATS = {'cli_invocations': 0, 'cli_options_respelled': 0,
         'cli_invocations_reordered': 0}
_INSTALLED = [False]


def restyle(args, rng):
    args = list(args)
    if not args or args[0] not in ALIASES:
        return args
    cmd = args[0]
    short2long = ALIASES[cmd]
    long2short = {v: k for k, v in short2long.items()}
    groups = []
    i = 1
    while i < len(args):
        a = args[i]
        if not (isinstance(a, str) and a.startswith('-')) or a in ('-',):
            return args             # positional / unexpected: leave alone
        if a in FLAGS:
            groups.append([a])
            i += 1
        else:
            if i + 1 >= len(args):
                return args
            groups.append([a, args[i + 1]])
            i += 2
    for g in groups:
        other = short2long.get(g[0]) or long2short.get(g[0])
        if other and rng.random() < .5:
            g[0] = other
            STATS['cli_options_respelled'] += 1
    if len(groups) > 1 and rng.random() < .5:
        rng.shuffle(groups)
        STATS['cli_invocations_reordered'] += 1
    return [cmd] + [x for g in groups for x in g]


def install():
    if _INSTALLED[0]:
        return
    _INSTALLED[0] = True
    from click.testing import CliRunner
    from vm import callstyle
    orig = CliRunner.invoke

    @functools.wraps(orig)
    def invoke(self, cli, args=None, *a, **k):
        if isinstance(args, (list, tuple)):
            STATS['cli_invocations'] += 1
            args = restyle(args, callstyle._RNG[0])
        return orig(self, cli, args, *a, **k)
    CliRunner.invoke = invoke
