"""Paths, environment and import of the code under test."""
import hashlib
import os
import random
import sys

VERIF = os.path.dirname(os.path.dirname(os.path.abspath(__file__)))
REPO = os.path.abspath(os.environ.get('VERIF_REPO', '/repo'))
DEPS = os.path.join(VERIF, '.deps')
BUILD = os.path.join(VERIF, '.build')
EVIDENCE = os.environ.get('VERIF_EVIDENCE_DIR') or os.path.join(VERIF, 'evidence')
REPLAYS = os.path.join(VERIF, 'replays')
KNOWN = os.path.join(VERIF, 'known_findings.json')
PY = '/venv/bin/python'


def seed_from_env():
    try:
        return int(os.environ.get('VERIF_SEED', '0'))
    except ValueError:
        return 0


def sub_rng(*parts):
    """random.Random derived deterministically from the given parts."""
    h = hashlib.sha256(repr(parts).encode()).digest()
    return random.Random(int.from_bytes(h[:8], 'big'))


def fingerprint(obj):
    return hashlib.sha1(repr(obj).encode('utf8', 'surrogatepass')).hexdigest()[:16]


def import_biom():
    """Import biom from REPO (never from an installed copy elsewhere)."""
    if REPO not in sys.path or sys.path[0] != REPO:
        if REPO in sys.path:
            sys.path.remove(REPO)
        sys.path.insert(0, REPO)
    if os.path.isdir(DEPS) and DEPS not in sys.path:
        sys.path.append(DEPS)
    from vm import build
    build.install_kernel_finder()
    import biom
    here = os.path.dirname(os.path.abspath(biom.__file__))
    if os.path.dirname(here) != REPO:
        raise RuntimeError('biom imported from %s, expected %s' % (here, REPO))
    # the CLI re-opens fd 1 on every invocation; neutralise for in-process use
    try:
        import biom.cli
        biom.cli._terribly_handle_brokenpipeerror = lambda: None
    except Exception:  # pragma: no cover
        pass
    if os.environ.get('VERIF_NO_CALLSTYLE') != '1':
        from vm import callstyle
        import biom.table   # noqa: F401
        callstyle.install(biom)
        from vm import clistyle
        clistyle.install()
    return biom
