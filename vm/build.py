"""Rebuild the three Cython kernels from /repo's generated C (hash-cached).

Cython is not installed in this sandbox, so .pyx -> .c is only attempted when
a `cython` module happens to be importable; .c -> .so is always possible.
Policy (see DESIGN.md 2.1):
  * if biom/_x.c exists: compile it (cache key = sha256 of the C text + flags)
    into /verif/.build/<variant>/<hash>/ and make `biom._x` resolve to it;
  * otherwise use the in-tree shared object and say so.
"""
import glob
import hashlib
import importlib.abc
import importlib.machinery
import importlib.util
import json
import os
import subprocess
import sys
import sysconfig

from vm import common

KERNELS = ('_filter', '_transform', '_subsample')
_state = {'installed': False, 'info': {}}


def _numpy_include():
    import numpy
    return numpy.get_include()


def _flags(variant):
    if variant == 'san':
        return ['clang', '-O1', '-g', '-fsanitize=address,undefined',
                '-fno-omit-frame-pointer', '-fPIC', '-shared',
                '-Wno-unreachable-code', '-Wno-deprecated-declarations']
    return ['cc', '-O2', '-fPIC', '-shared', '-w']


def _maybe_cythonize(name, repo):
    pyx = os.path.join(repo, 'biom', name + '.pyx')
    c = os.path.join(repo, 'biom', name + '.c')
    if not os.path.exists(pyx):
        return 'no-pyx'
    if os.path.exists(c) and os.path.getmtime(c) >= os.path.getmtime(pyx):
        return 'c-current'
    try:
        import Cython  # noqa: F401
    except ImportError:
        return 'pyx-newer-than-c-but-no-cython'
    out = os.path.join(common.BUILD, 'cython', name + '.c')
    os.makedirs(os.path.dirname(out), exist_ok=True)
    r = subprocess.run([sys.executable, '-m', 'cython', '-3', pyx, '-o', out],
                       capture_output=True, text=True)
    return 'cythonized:' + out if r.returncode == 0 else 'cython-failed'


def build_kernel(name, variant='plain', repo=None):
    """Returns (path to .so or None, info string)."""
    repo = repo or common.REPO
    status = _maybe_cythonize(name, repo)
    c = os.path.join(repo, 'biom', name + '.c')
    if status.startswith('cythonized:'):
        c = status.split(':', 1)[1]
    if not os.path.exists(c):
        return None, 'in-tree .so (no generated C): ' + status
    flags = _flags(variant)
    inc = [sysconfig.get_paths()['include'], _numpy_include()]
    text = open(c, 'rb').read()
    key = hashlib.sha256(text + repr(flags).encode() +
                         sys.version.encode()).hexdigest()[:20]
    suffix = importlib.machinery.EXTENSION_SUFFIXES[0]
    outdir = os.path.join(common.BUILD, variant, key)
    out = os.path.join(outdir, name + suffix)
    if os.path.exists(out):
        return out, 'cached build of %s (%s)' % (os.path.basename(c), status)
    os.makedirs(outdir, exist_ok=True)
    tmp = out + '.tmp%d' % os.getpid()
    cmd = flags + ['-I' + i for i in inc] + [c, '-o', tmp]
    r = subprocess.run(cmd, capture_output=True, text=True)
    if r.returncode != 0:
        return None, 'compile failed, using in-tree .so: ' + r.stderr[-400:]
    os.replace(tmp, out)
    return out, 'built %s (%s)' % (os.path.basename(c), status)


def build_all(variant='plain', repo=None):
    from concurrent.futures import ThreadPoolExecutor
    with ThreadPoolExecutor(3) as ex:
        res = list(ex.map(lambda k: build_kernel(k, variant, repo), KERNELS))
    return dict(zip(KERNELS, res))


class _KernelFinder(importlib.abc.MetaPathFinder):
    def __init__(self, mapping):
        self.mapping = mapping

    def find_spec(self, fullname, path, target=None):
        so = self.mapping.get(fullname)
        if so is None:
            return None
        loader = importlib.machinery.ExtensionFileLoader(fullname, so)
        return importlib.util.spec_from_file_location(fullname, so,
                                                      loader=loader)


def install_kernel_finder(variant=None):
    """Make biom._filter etc. resolve to kernels built from REPO's C."""
    if _state['installed']:
        return _state['info']
    variant = variant or os.environ.get('VERIF_KERNEL_VARIANT', 'plain')
    mapping = {}
    info = {}
    for name, (so, msg) in build_all(variant).items():
        info[name] = msg
        if so:
            mapping['biom.' + name] = so
    if mapping:
        sys.meta_path.insert(0, _KernelFinder(mapping))
    _state['installed'] = True
    _state['info'] = info
    return info


def asan_runtime():
    r = subprocess.run(['clang', '-print-file-name=libclang_rt.asan-x86_64.so'],
                       capture_output=True, text=True)
    p = r.stdout.strip()
    return p if os.path.exists(p) else None


if __name__ == '__main__':
    print(json.dumps({v: {k: m for k, (s, m) in build_all(v).items()}
                      for v in sys.argv[1:] or ['plain']}, indent=1))
