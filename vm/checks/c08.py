"""C08 -- filtering keeps exactly the selected IDs, intact and in order.

Monitors: callback tap on the predicate (M3), dense reference model, snapshot
comparison of receiver/result (M1), unknown-ID fault injection (M9).
"""
import itertools

import numpy as np

from vm import gen, snap
from vm.ctx import Violation

ID = 'C08'
TITLE = 'filter keeps exactly the selected ids'
LEVEL = 'exploration'
RULE = ('exhaustive part: every matrix over {0,1,2} up to 2x3/3x2 (quick; '
        'plus a 3x3 sample; thorough: all 3x3) x axis, and inside each every '
        'subset x invert x inplace x {id collection, predicate}; random part: '
        'generated tables x layout recipes x collection types / predicates / '
        'remove_empty / head / unknown ids. A filter call is non-trivial if '
        'the axis has >=2 ids and the kept set is neither empty nor '
        'everything, or invert is on; distinct = distinct (matrix, ids, '
        'layout state, operation, arguments)')
ASSUMPTIONS = [
    'ids_to_keep is a plain function or a non-string iterable of ids',
    'tables are in the C01 domain (distinct non-empty ids, finite values)',
    'bit-exact comparison treats -0.0 and 0.0 as the same value',
]
ANCHORS = ['Table.filter', 'Table.remove_empty', 'Table.head']
REQUIRED = ['tables_with_bytes_category_names', 'tables_with_non_finite_values', 'predicate_calls_checked', 'filter_by_ids', 'filter_by_predicate',
            'predicate_reads_the_table', 'remove_empty_at_count_limits', 'remove_empty_calls', 'head_calls', 'unknown_id_refused',
            'layout_unsorted_seen', 'layout_csc_seen']

_SMALL_SHAPES = [(1, 1), (1, 2), (2, 1), (1, 3), (3, 1), (2, 2), (2, 3),
                 (3, 2)]


def _n_small():
    return sum(3 ** (n * m) for n, m in _SMALL_SHAPES)


def plan(tier):
    small = _n_small() * 2
    n33 = 300 if tier == 'quick' else 3 ** 9
    nrand = 2500 if tier == 'quick' else 60000
    return {'cases': small + n33 + nrand, 'small': small, 'n33': n33,
            'nrand': nrand, 'shards': 16, 'min_nontrivial': 1000,
            'timeout': 900 if tier == 'quick' else 3600}


def _decode_small(i):
    axis = 'sample' if i % 2 == 0 else 'observation'
    i //= 2
    for (n, m) in _SMALL_SHAPES:
        k = 3 ** (n * m)
        if i < k:
            return n, m, i, axis
        i -= k
    raise IndexError


def _matrix(n, m, code):
    D = np.zeros((n, m))
    for c in range(n * m):
        D[c // m, c % m] = code % 3
        code //= 3
    return D


def expected_filter(spec, keep_ids, axis, invert):
    keep = set(keep_ids)
    ids = spec.ids(axis)
    mask = [(i in keep) != bool(invert) for i in ids]
    out = spec.copy()
    idx = [k for k, b in enumerate(mask) if b]
    if axis == 'observation':
        out.obs_ids = [ids[k] for k in idx]
        out.D = spec.D[idx, :].reshape(len(idx), len(spec.samp_ids))
        if spec.obs_md is not None:
            out.obs_md = [spec.obs_md[k] for k in idx]
    else:
        out.samp_ids = [ids[k] for k in idx]
        out.D = spec.D[:, idx].reshape(len(spec.obs_ids), len(idx))
        if spec.samp_md is not None:
            out.samp_md = [spec.samp_md[k] for k in idx]
    return out


def check_result(res, exp, what, desc):
    d = snap.diff(snap.snap(res), snap.snap_spec(exp))
    if d:
        raise Violation('C08/wrong-result/' + what.split(':')[0],
                        '%s: %s; case=%r' % (what, '; '.join(d), desc))


def make_tap(ctx, spec, axis, decide):
    log = []

    def pred(v, i, md):
        log.append((np.array(v, dtype=float, copy=True), str(i),
                    None if md is None else dict(md)))
        return decide(v, i, md)
    return pred, log


def check_tap(ctx, log, spec, axis, desc):
    ids = spec.ids(axis)
    if len(log) != len(ids) or [e[1] for e in log] != list(ids):
        raise Violation('C08/predicate-call-sequence',
                        'predicate called for %r, axis ids are %r; case=%r' %
                        ([e[1] for e in log], ids, desc))
    md = spec.md(axis)
    for k, (v, i, m) in enumerate(log):
        true = spec.vec(i, axis)
        if not snap.bits_equal(v, true):
            raise Violation('C08/predicate-wrong-vector',
                            'predicate for %r received %r, true vector is %r;'
                            ' case=%r' % (i, v.tolist(), true.tolist(), desc))
        em = {} if md is None else snap.canon_md([md[k]], 1)[0]
        gm = {} if m is None else snap.canon_md([m], 1)[0]
        if not snap.md_equal([gm], [em]):
            raise Violation('C08/predicate-wrong-metadata',
                            'predicate for %r received metadata %r, its own '
                            'is %r; case=%r' % (i, gm, em, desc))
        ctx.count('predicate_calls_checked')


def as_collection(r, ids, kind, axis_len=None):
    ids = list(ids)
    r.shuffle(ids)
    if kind in ('dup-padded-ndarray', 'dup-padded-tuple'):
        lst = as_collection(r, ids, 'dup-padded', axis_len)
        return np.array(lst, dtype=str) if kind.endswith('ndarray') and lst \
            else tuple(lst)
    if kind == 'dup-padded':
        # ids repeated until the request is as long as the axis (or one
        # longer): a request is a set of ids, however often each is named
        target = (axis_len or len(ids) + 2) + r.choice([0, 0, 1])
        while ids and len(ids) < target:
            ids.insert(r.randrange(len(ids) + 1), r.choice(ids))
        return ids
    if kind == 'list':
        return ids
    if kind == 'tuple':
        return tuple(ids)
    if kind == 'set':
        return set(ids)
    if kind == 'frozenset':
        return frozenset(ids)
    if kind == 'ndarray':
        return np.array(ids, dtype=str) if ids else np.array([], dtype=str)
    if kind == 'objarray':
        return np.array(ids, dtype=object)
    if kind == 'dictkeys':
        return {i: 1 for i in ids}.keys()
    if kind == 'duplist':
        return ids + ids[:1]
    # collections that can be walked only once, and pandas containers
    if kind == 'generator':
        return (i for i in ids)
    if kind == 'iterator':
        return iter(ids)
    if kind == 'map':
        return map(str, ids)
    if kind == 'pandas-index':
        import pandas as pd
        return pd.Index(ids, dtype=object)
    if kind == 'pandas-series':
        import pandas as pd
        return pd.Series(ids, dtype=object)
    if kind == 'deque':
        import collections
        return collections.deque(ids)
    if kind == 'dictvalues':
        return {k: i for k, i in enumerate(ids)}.values()
    raise ValueError(kind)


COLLS = ['list', 'tuple', 'set', 'frozenset', 'ndarray', 'objarray',
         'dictkeys', 'duplist', 'generator', 'iterator', 'map',
         'pandas-index', 'pandas-series', 'deque', 'dictvalues',
         'dup-padded', 'dup-padded', 'dup-padded-ndarray',
         'dup-padded-tuple']


def note_layout(ctx, t):
    st = gen.layout_state(t)
    ctx.cls('layout_state', st)
    if 'unsorted' in st:
        ctx.count('layout_unsorted_seen')
    if st.startswith('csc'):
        ctx.count('layout_csc_seen')
    return st


def one_filter(ctx, make, spec, axis, keep, invert, inplace, mode, desc0,
               r=None, coll='list'):
    """Run one filter call on a fresh receiver and apply all oracles."""
    t = make()
    st = note_layout(ctx, t)
    before = snap.snap(t)
    exp = expected_filter(spec, keep, axis, invert)
    desc = dict(desc0, op='filter', axis=axis, keep=sorted(keep),
                invert=invert, inplace=inplace, mode=mode, layout=st)
    if mode == 'ids':
        arg = as_collection(r, keep, coll, len(spec.ids(axis))) \
            if r is not None else list(keep)
        res = t.filter(arg, axis=axis, invert=invert, inplace=inplace)
        ctx.count('filter_by_ids')
    else:
        ks = set(keep)
        pred, log = make_tap(ctx, spec, axis, lambda v, i, md: i in ks)
        res = t.filter(pred, axis=axis, invert=invert, inplace=inplace)
        check_tap(ctx, log, spec, axis, desc)
        ctx.count('filter_by_predicate')
    if inplace:
        if res is not t:
            raise Violation('C08/inplace-identity', 'inplace filter did not '
                            'return the receiver; case=%r' % (desc,))
    else:
        if res is t:
            raise Violation('C08/inplace-identity', 'inplace=False returned '
                            'the receiver; case=%r' % (desc,))
        d = snap.diff(snap.snap(t), before)
        if d:
            raise Violation('C08/receiver-modified', '%s; case=%r' %
                            ('; '.join(d), desc))
    check_result(res, exp, 'filter-' + mode, desc)
    n = len(spec.ids(axis))
    nk = len(exp.ids(axis))
    ctx.case(desc, n >= 2 and (0 < nk < n or invert))
    return res


def run_small(ctx, n, m, code, axis):
    D = _matrix(n, m, code)
    obs_ids = ['o%d' % i for i in range(n)]
    samp_ids = ['s%d' % j for j in range(m)]
    with_md = code % 2 == 1
    spec = gen.Spec(obs_ids, samp_ids, D,
                    [{'k': 'vo%d' % i} for i in range(n)] if with_md else
                    None,
                    [{'k': 'vs%d' % j} for j in range(m)] if with_md else
                    None)
    ids = spec.ids(axis)
    desc0 = {'D': D.tolist(), 'md': with_md}
    # alternate the stored layout deterministically
    recipe = ['as-built', 'touch-sample', 'sort-unsort-samp',
              'sort-unsort-obs', 'touch-obs', 'csr-unsorted'][code % 6]
    r = ctx.rng('small', n, m, code)

    def make():
        return gen.apply_layout(ctx.biom, spec, recipe, r)
    for k in range(len(ids) + 1):
        for keep in itertools.combinations(ids, k):
            for invert in (False, True):
                for inplace in (False, True):
                    a = one_filter(ctx, make, spec, axis, keep, invert,
                                   inplace, 'ids', desc0)
                    b = one_filter(ctx, make, spec, axis, keep, invert,
                                   inplace, 'pred', desc0)
                    if not (a == b):
                        raise Violation(
                            'C08/predicate-vs-ids',
                            'filter by predicate and by the accepted id list '
                            'give unequal tables; case=%r keep=%r' %
                            (desc0, keep))


def value_predicates(r, spec, axis):
    """predicates over values / id / metadata with their reference answer."""
    thr = r.choice([0, 1, 2, 5])
    choices = [
        ('sum>%s' % thr, lambda v, i, md: v.sum() > thr),
        ('any', lambda v, i, md: bool(np.any(v))),
        ('count_nonzero>=2', lambda v, i, md: np.count_nonzero(v) >= 2),
        ('first_nonzero', lambda v, i, md: len(v) > 0 and v[0] != 0),
        ('last_nonzero', lambda v, i, md: len(v) > 0 and v[-1] != 0),
        ('max>mean', lambda v, i, md: len(v) > 0 and v.max() > v.mean()),
        ('id-hash', lambda v, i, md: (sum(map(ord, i)) % 2) == 0),
        ('md-has-key', lambda v, i, md: md is not None and len(md) > 0 and
         (sum(map(ord, repr(sorted(md.items(), key=str)))) % 3) != 0),
        ('numpy-bool', lambda v, i, md: np.bool_(v.sum() >= 0)),
        ('int-truthy', lambda v, i, md: int(np.count_nonzero(v))),
    ]
    return r.choice(choices)


def run_random(ctx, index):
    r = ctx.rng(index)
    spec = gen.gen_spec(r, max_n=7, max_m=7)
    recipe = r.choice(gen.LAYOUTS)
    axis = r.choice(['sample', 'observation'])
    desc0 = {'table': spec.describe(), 'recipe': recipe}
    ctx.cls('ids', spec.classes['ids_obs'])
    ctx.cls('values', spec.classes['values'])
    ctx.cls('recipe', recipe)

    if r.random() < .1:
        # category names need not be str: bytes (what HDF5 / Python-2 era
        # code hands over) name other categories than their decoded text
        for which in ('obs_md', 'samp_md'):
            md_ = getattr(spec, which)
            if md_:
                setattr(spec, which, [{(k.encode('utf-8') if isinstance(
                    k, str) else k): v for k, v in e.items()} for e in md_])
        desc0 = {'table': repr(spec.describe()), 'recipe': recipe,
                 'bytes_category_names': True}
        ctx.count('tables_with_bytes_category_names')

    def make():
        return gen.apply_layout(ctx.biom, spec, recipe,
                                ctx.rng(index, 'layout'))
    ids = spec.ids(axis)
    kind = r.choice(['ids', 'ids', 'pred-value', 'pred-value', 'remove_empty',
                     'head', 'unknown', 'pred-ids'])
    if kind in ('remove_empty', 'ids', 'head') and spec.D.any() and \
            r.random() < .2:
        # a vector holding inf / nan is not an all-zero vector
        nzr, nzc = np.nonzero(spec.D)
        q = r.randrange(len(nzr))
        spec.D[nzr[q], nzc[q]] = r.choice([float('nan'), float('inf'),
                                           float('-inf')])
        desc0 = {'table': spec.describe(), 'recipe': recipe,
                 'non_finite': True}
        ctx.count('tables_with_non_finite_values')
    invert = r.random() < .4
    inplace = r.random() < .5
    if kind in ('ids', 'pred-ids'):
        keep = r.sample(ids, r.randint(0, len(ids)))
        one_filter(ctx, make, spec, axis, keep, invert, inplace,
                   'ids' if kind == 'ids' else 'pred', desc0, r,
                   r.choice(COLLS))
        ctx.cls('collection', kind)
    elif kind == 'pred-value':
        name, f = value_predicates(r, spec, axis)
        t = make()
        st = note_layout(ctx, t)
        md = spec.md(axis)
        accepted = [i for k, i in enumerate(ids) if bool(f(
            spec.vec(i, axis).copy(), i,
            None if md is None else md[k]))]
        desc = dict(desc0, op='filter', pred=name, axis=axis, invert=invert,
                    inplace=inplace, layout=st)
        pred, log = make_tap(ctx, spec, axis, f)
        other_ax = 'observation' if axis == 'sample' else 'sample'
        if not inplace and r.random() < .2 and spec.ids(other_ax):
            # a predicate that looks something up in the table it is asked
            # about (reading only) gets the same vectors and the same answer
            inner, oid = pred, spec.ids(other_ax)[0]
            look = r.choice(['other-axis-vector', 'other-axis-sum',
                             'same-axis-vector'])
            desc['predicate_reads_the_table'] = look

            def pred(v, i, m):
                if look == 'other-axis-vector':
                    t.data(oid, axis=other_ax, dense=True)
                elif look == 'other-axis-sum':
                    t.sum(axis=other_ax)
                else:
                    t.data(i, axis=axis, dense=False)
                return inner(v, i, m)
            ctx.count('predicate_reads_the_table')
        res = t.filter(pred, axis=axis, invert=invert, inplace=inplace)
        check_tap(ctx, log, spec, axis, desc)
        ctx.count('filter_by_predicate')
        exp = expected_filter(spec, accepted, axis, invert)
        check_result(res, exp, 'filter-pred-value', desc)
        other = make().filter(accepted, axis=axis, invert=invert,
                              inplace=False)
        if not (res == other) or not (other == res):
            raise Violation('C08/predicate-vs-ids', 'predicate filter != '
                            'filter by accepted ids %r; case=%r' %
                            (accepted, desc))
        nk = len(exp.ids(axis))
        ctx.case(desc, len(ids) >= 2 and (0 < nk < len(ids) or invert))
    elif kind == 'remove_empty':
        ax = r.choice(['whole', 'sample', 'observation'])
        t = make()
        st = note_layout(ctx, t)
        before = snap.snap(t)
        desc = dict(desc0, op='remove_empty', axis=ax, inplace=inplace,
                    layout=st)
        res = t.remove_empty(axis=ax, inplace=inplace)
        exp = spec
        if ax in ('whole', 'sample'):
            keep = [i for j, i in enumerate(exp.samp_ids)
                    if np.any(exp.D[:, j] != 0)]
            exp = expected_filter(exp, keep, 'sample', False)
        if ax in ('whole', 'observation'):
            keep = [i for j, i in enumerate(exp.obs_ids)
                    if np.any(exp.D[j, :] != 0)]
            exp = expected_filter(exp, keep, 'observation', False)
        if (res is t) != inplace:
            raise Violation('C08/inplace-identity', 'remove_empty identity; '
                            'case=%r' % (desc,))
        if not inplace:
            d = snap.diff(snap.snap(t), before)
            if d:
                raise Violation('C08/receiver-modified', '%s; case=%r' %
                                ('; '.join(d), desc))
        check_result(res, exp, 'remove_empty', desc)
        ctx.count('remove_empty_calls')
        ctx.case(desc, exp.D.shape != spec.D.shape)
    elif kind == 'head':
        n = r.randint(-1, len(spec.obs_ids) + 2)
        m = r.randint(-1, len(spec.samp_ids) + 2)
        if r.random() < .8:
            n, m = max(n, 1), max(m, 1)
        t = make()
        st = note_layout(ctx, t)
        before = snap.snap(t)
        desc = dict(desc0, op='head', n=n, m=m, layout=st)
        if n <= 0 or m <= 0:
            # outside the statement (the docstring promises IndexError, the
            # property does not): only observed, and the table must survive
            try:
                t.head(n, m)
            except Exception:
                ctx.count('head_refused')
            d = snap.diff(snap.snap(t), before)
            if d:
                raise Violation('C08/receiver-modified', 'head(%d,%d): %s; '
                                'case=%r' % (n, m, '; '.join(d), desc))
        else:
            res = t.head(n, m)
            exp = expected_filter(spec, spec.obs_ids[:n], 'observation',
                                  False)
            exp = expected_filter(exp, spec.samp_ids[:m], 'sample', False)
            check_result(res, exp, 'head', desc)
            d = snap.diff(snap.snap(t), before)
            if d:
                raise Violation('C08/receiver-modified', 'head: %s; case=%r'
                                % ('; '.join(d), desc))
        ctx.count('head_calls')
        ctx.case(desc, 0 < n < len(spec.obs_ids) or 0 < m < len(
            spec.samp_ids))
    elif kind == 'unknown':
        keep = r.sample(ids, r.randint(0, len(ids)))
        bogus = r.choice(['no-such-id', ids[0] + 'x', ids[-1][:-1] + 'é',
                          ids[0] + ' ', ids[0].upper() + '_'])
        while bogus in ids:
            bogus += '~'
        # exercise the boundary where the request is as long as the axis
        if r.random() < .5 and len(ids) >= 1:
            keep = list(ids[:-1])
        arg = as_collection(r, keep + [bogus], r.choice(
            COLLS[:6] + COLLS[8:]))
        t = make()
        st = note_layout(ctx, t)
        before = snap.snap(t)
        desc = dict(desc0, op='filter-unknown', axis=axis, keep=keep,
                    bogus=bogus, invert=invert, inplace=inplace, layout=st)
        try:
            t.filter(arg, axis=axis, invert=invert, inplace=inplace)
        except Exception:
            ctx.count('unknown_id_refused')
        else:
            raise Violation('C08/unknown-id-accepted', 'filter naming the '
                            'unknown id %r was accepted; case=%r' %
                            (bogus, desc))
        d = snap.diff(snap.snap(t), before)
        if d:
            raise Violation('C08/unknown-id-changed-table', '%s; case=%r' %
                            ('; '.join(d), desc))
        ctx.case(desc, True)


def run_case(ctx, index):
    p = plan(ctx.tier)
    if index < p['small']:
        n, m, code, axis = _decode_small(index)
        run_small(ctx, n, m, code, axis)
        ctx.count('exhaustive_matrices')
    elif index < p['small'] + p['n33']:
        k = index - p['small']
        if ctx.tier == 'quick':
            code = ctx.rng('n33', k).randrange(3 ** 9)
        else:
            code = k
        run_small(ctx, 3, 3, code, 'sample' if k % 2 == 0 else 'observation')
        ctx.count('exhaustive_matrices_3x3')
    else:
        run_random(ctx, index)


def summarize(counters, extra, tier):
    p = plan(tier)
    return {'exhaustive_scope': 'all %d matrices over {0,1,2} of shapes %r x '
            'both axes x all subsets x invert x inplace x {ids,predicate}; '
            '3x3: %s' % (_n_small(), _SMALL_SHAPES,
                         'all 19683' if tier == 'thorough' else
                         '%d sampled' % p['n33'])}


def stress(ctx):
    from vm.checks import _stress
    _stress.stress_filter(ctx, ctx.rng('stress'))
    scale(ctx)
    scale_counts(ctx)


def scale(ctx):
    """Scale: id collections with more than 1000 entries on a long axis."""
    import scipy.sparse as sp
    r = ctx.rng('scale')
    sizes = [1300] + gen.boundary_sizes(r, 300, 5000,
                                        1 if ctx.tier == 'quick' else 6)
    for axis, n in [(a, n_) for n_ in sizes
                    for a in ('sample', 'observation')]:
        ids = ['id%04d' % i for i in range(n)]
        other = ['x', 'y']
        rng = np.random.default_rng(r.randrange(2 ** 32))
        V = rng.integers(0, 3, size=(n, 2)).astype(float)
        D = V if axis == 'observation' else V.T
        spec = gen.Spec(ids if axis == 'observation' else other,
                        other if axis == 'observation' else ids, D)
        desc = {'scale': '%d ids on %s' % (n, axis)}

        def make():
            return gen.build(ctx.biom, spec, 'csr')
        keep = r.sample(ids, n - max(1, n // 7))
        for coll in ('list', 'set', 'ndarray'):
            for invert in (False, True):
                res = make().filter(as_collection(r, keep, coll), axis=axis,
                                    invert=invert, inplace=False)
                check_result(res, expected_filter(spec, keep, axis, invert),
                             'filter-ids-long', desc)
                ctx.count('scale_long_collections')
            for bogus in ('id9999', ids[-1] + '0'):
                t = make()
                before = snap.snap(t)
                for inplace in (False, True):
                    try:
                        t.filter(as_collection(r, keep + [bogus], coll),
                                 axis=axis, inplace=inplace)
                    except Exception:
                        ctx.count('unknown_id_refused')
                    else:
                        raise Violation('C08/unknown-id-accepted', 'a %d-id '
                                        '%s naming the unknown id %r was '
                                        'accepted; %r' % (len(keep) + 1, coll,
                                                          bogus, desc))
                    d = snap.diff(snap.snap(t), before)
                    if d:
                        raise Violation('C08/unknown-id-changed-table',
                                        '%s; %r' % ('; '.join(d), desc))
        ctx.case(desc, True)


def scale_counts(ctx):
    """remove_empty on vectors whose number of non-zero cells sits at the
    limits of the small integer types (a count kept in too narrow a type
    wraps to 0 there): 255 / 256 / 257 / 512 / 65535 / 65536 / 65537 cells,
    next to empty vectors and one-cell vectors; values of both signs, some
    vectors summing to zero."""
    import scipy.sparse as sp
    r = ctx.rng('scale-counts')
    counts = [0, 1, 255, 256, 257, 0, 512, 768, 65535, 65536, 65537, 2]
    L = 65540
    for axis in ('sample', 'observation'):
        order = list(counts)
        r.shuffle(order)
        rows, cols, vals = [], [], []
        for j, c in enumerate(order):
            pos = sorted(r.sample(range(L), c))
            v = [r.choice([1.0, 2.0, -1.0, 0.5]) for _ in pos]
            if c and c % 2 == 0 and j % 2:
                v = [1.0, -1.0] * (c // 2)          # sums to zero
            rows += pos
            cols += [j] * c
            vals += v
        M = sp.coo_matrix((vals, (rows, cols)), shape=(L, len(order)))
        long_ids = ['v%05d' % i for i in range(L)]
        short_ids = ['c%d_%d' % (j, c) for j, c in enumerate(order)]
        if axis == 'sample':
            t = ctx.biom.Table(M.tocsr(), long_ids, short_ids)
        else:
            t = ctx.biom.Table(M.T.tocsr(), short_ids, long_ids)
        desc = {'scale': 'non-zero counts %r along %s' % (order, axis)}
        want = [i for i, c in zip(short_ids, order) if c]
        for layout in ('csr', 'csc'):
            for inplace in (False, True):
                u = t.copy()
                if layout == 'csc':
                    u.data(u.ids()[0], axis='sample')   # leaves CSC behind
                    if not gen.layout_state(u).startswith('csc'):
                        continue
                res = u.remove_empty(axis=axis, inplace=inplace)
                got = [str(i) for i in res.ids(axis=axis)]
                if got != want:
                    raise Violation('C08/wrong-result/remove_empty-counts',
                                    'kept %r, the vectors with a non-zero '
                                    'cell are %r; %r' % (got, want, desc))
                for i, c in zip(short_ids, order):
                    if c and np.count_nonzero(
                            res.data(i, axis=axis, dense=True)) != c:
                        raise Violation('C08/wrong-result/remove_empty-'
                                        'counts', 'vector %r changed; %r' %
                                        (i, desc))
                if res.shape[0 if axis == 'sample' else 1] != L:
                    raise Violation('C08/wrong-result/remove_empty-counts',
                                    'the other axis changed: %r; %r' %
                                    (res.shape, desc))
                ctx.count('remove_empty_at_count_limits')
        ctx.case(desc, True)


def san_indices(tier):
    p = plan(tier)
    base = p['small'] + p['n33']
    k = 300 if tier == 'quick' else 4000
    return list(range(0, 400, 7)) + list(range(base, base + k))
