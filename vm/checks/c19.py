"""C19 -- summaries and exports report the numbers that are in the matrix.

Monitors: every reported figure is recomputed with numpy from the dense
reference matrix; reports are parsed line by line; CLI commands run through
click's CliRunner.
"""
import csv
import io
import math
import os

import numpy as np

from vm import gen, snap
from vm.ctx import Violation

ID = 'C19'
TITLE = 'summaries and exports report the matrix'
LEVEL = 'exploration'
RULE = ('generated tables (non-square shapes favoured; count / dyadic / '
        'fraction / negative / tiny / many-digit / 2^40 values; all-zero '
        'trailing vectors forced in a third of the cases) x 13 layout '
        'recipes x the whole battery: sum x3, min / max x3, nonzero_counts '
        'x3 x binary, density, reduce, compute_counts_per_sample_stats x2, '
        '_summarize_table x3 modes (+ CLI), table-ids x2, head, '
        'to_dataframe x2, metadata_to_dataframe, export-metadata. '
        'Non-trivial: non-square table whose row and column sums are '
        'pairwise distinct; distinct = distinct (table, layout)')
ASSUMPTIONS = [
    'a printed figure is compared with the reference at the report\'s own '
    'precision (%1.3f: |d| <= 0.0005 + ulp; %d: |d| < 1)',
    'min/max are only defined for vectors with a non-zero entry',
    'detail lines are split with rsplit(": ", 1); LC_ALL=C (no grouping); '
    'ties in the ascending detail listing may come in any order',
    'metadata for the dataframe/export checks is non-jagged',
]
ANCHORS = ['Table.sum', 'Table.min', 'Table.max', 'Table.nonzero_counts', 'Table.reduce', 'Table.get_table_density', 'compute_counts_per_sample_stats', '_summarize_table', 'Table.to_dataframe', 'Table.metadata_to_dataframe', '_export_metadata']
REQUIRED = ['metadata_with_empty_list_category', 'reports_printed_to_stdout', 'scale_head_cli', 'export_metadata_both_axes_at_once', 'stats_with_stored_zero', 'stats_with_non_finite_count', 'metadata_given_as_tuples', 'reduce_callable_kinds_checked', 'sum_checked', 'minmax_checked', 'minmax_negative_only_vectors',
            'nonzero_counts_checked', 'trailing_empty_vector_cases',
            'reduce_checked', 'stats_checked', 'summarize_default',
            'summarize_qualitative', 'summarize_observations',
            'summarize_cli', 'table_ids_cli', 'head_cli',
            'to_dataframe_checked', 'metadata_to_dataframe_checked',
            'export_metadata_cli', 'layout_csc_seen']


def plan(tier):
    n = 2500 if tier == 'quick' else 80000
    return {'cases': n, 'shards': 16, 'min_nontrivial': 300,
            'timeout': 900 if tier == 'quick' else 3600}


_SCALE = [1.0]


def close(a, b, rtol=1e-12):
    a, b = np.asarray(a, dtype=float), np.asarray(b, dtype=float)
    if a.shape != b.shape:
        return False
    # sums may cancel: the absolute tolerance scales with the magnitude of
    # the data that went into them, not with the result
    return bool(np.allclose(a, b, rtol=rtol, atol=1e-12 * _SCALE[0]))


def _cli(args):
    from click.testing import CliRunner
    from biom.cli import cli
    return CliRunner().invoke(cli, args)


def fmt3_ok(text, ref):
    try:
        v = float(text.replace(',', ''))
    except ValueError:
        return False
    return abs(v - ref) <= 0.0005 + 1e-9 * max(1.0, abs(ref))


def int_ok(text, ref):
    try:
        v = float(text.replace(',', ''))
    except ValueError:
        return False
    return abs(v - ref) < 1 + 1e-9 * max(1.0, abs(ref))


def check_summary(ctx, text, spec, qualitative, observations, desc, sig):
    D = spec.D
    n, m = D.shape
    # per "sample" of the report: samples normally, observations in
    # --observations mode
    V = D if observations else D.T         # rows = reported units
    ids = spec.obs_ids if observations else spec.samp_ids
    per = (V != 0).sum(axis=1).astype(float) if qualitative else V.sum(axis=1)
    lines = text.split('\n')
    it = iter(lines)

    def bad(msg):
        raise Violation(sig, '%s; report=%r; case=%r' % (msg, text, desc))

    def expect_prefix(line, prefix):
        if not line.startswith(prefix):
            bad('expected a line starting %r, got %r' % (prefix, line))
        return line[len(prefix):]
    v = expect_prefix(next(it), 'Num samples: ')
    if not int_ok(v, m) or float(v.replace(',', '')) != m:
        bad('Num samples %r, table has %d' % (v, m))
    v = expect_prefix(next(it), 'Num observations: ')
    if float(v.replace(',', '')) != n:
        bad('Num observations %r, table has %d' % (v, n))
    if not qualitative:
        v = expect_prefix(next(it), 'Total count: ')
        if not int_ok(v, float(D.sum())):
            bad('Total count %r, matrix sums to %r' % (v, float(D.sum())))
        v = expect_prefix(next(it), 'Table density (fraction of non-zero '
                          'values): ')
        dens = np.count_nonzero(D) / float(n * m)
        if not fmt3_ok(v, dens):
            bad('density %r, reference %r' % (v, dens))
    if next(it) != '':
        bad('missing blank line')
    head = next(it)
    exp_head = ('Sample/observations summary:' if observations else
                'Observations/sample summary:') if qualitative else \
        'Counts/sample summary:'
    if head != exp_head:
        bad('section header %r, expected %r' % (head, exp_head))
    for label, ref in ((' Min: ', per.min()), (' Max: ', per.max()),
                       (' Median: ', np.median(per)),
                       (' Mean: ', per.mean()), (' Std. dev.: ', per.std())):
        v = expect_prefix(next(it), label)
        if not fmt3_ok(v, float(ref)):
            bad('%s%r, reference %r' % (label.strip(), v, float(ref)))
    smd = spec.obs_md if observations else spec.samp_md
    omd = spec.samp_md if observations else spec.obs_md
    # labels name the ORIGINAL axes
    exp_s = '; '.join(spec.samp_md[0].keys()) if spec.samp_md else \
        'None provided'
    exp_o = '; '.join(spec.obs_md[0].keys()) if spec.obs_md else \
        'None provided'
    # the order of the categories is not part of the property (files do
    # not preserve it)
    v = expect_prefix(next(it), ' Sample Metadata Categories: ')
    if sorted(v.split('; ')) != sorted(exp_s.split('; ')):
        bad('sample categories %r, expected %r' % (v, exp_s))
    v = expect_prefix(next(it), ' Observation Metadata Categories: ')
    if sorted(v.split('; ')) != sorted(exp_o.split('; ')):
        bad('observation categories %r, expected %r' % (v, exp_o))
    if next(it) != '':
        bad('missing blank line')
    dh = next(it)
    if dh != ('Observations/sample detail:' if qualitative else
              'Counts/sample detail:'):
        bad('detail header %r' % dh)
    detail = list(it)
    if len(detail) != len(ids):
        bad('%d detail lines for %d ids' % (len(detail), len(ids)))
    seen = {}
    prev = -math.inf
    for ln in detail:
        if ': ' not in ln:
            bad('detail line %r' % ln)
        i, val = ln.rsplit(': ', 1)
        if i not in ids or i in seen:
            bad('detail id %r unknown or repeated' % i)
        ref = float(per[ids.index(i)])
        if not fmt3_ok(val, ref):
            bad('detail %r reports %r, reference %r' % (i, val, ref))
        if ref < prev - 1e-9:
            bad('detail lines not ascending at %r' % i)
        prev = ref
        seen[i] = 1


def run_case(ctx, index):
    r = ctx.rng(index)
    biom = ctx.biom
    vcl = ['count', 'dyadic', 'frac', 'neg', 'tiny', 'manydigits',
           'bigcount']
    shape = None
    if index % 3 != 0:
        n, m = r.randint(1, 6), r.randint(1, 6)
        while n == m:
            m = r.randint(1, 6)
        shape = (n, m)
    spec = gen.gen_spec(r, max_n=6, max_m=6, value_classes=vcl, shape=shape,
                        md_kinds=['none', 'text', 'int', 'taxonomy',
                                  'multi'])
    if index % 3 == 1:
        # trailing all-zero vectors, and negative-only sparse vectors
        if spec.D.shape[1] > 1:
            spec.D[:, -1] = 0
        if spec.D.shape[0] > 1:
            spec.D[-1, :] = 0
        ctx.count('trailing_empty_vector_cases')
    if index % 5 == 2 and spec.D.size > 1:
        i = r.randrange(spec.D.shape[0])
        spec.D[i, :] = -np.abs(spec.D[i, :])
        spec.D[i, r.randrange(spec.D.shape[1])] = 0 if spec.D.shape[1] > 1 \
            else -1.5
        if not spec.D[i].any():
            spec.D[i, 0] = -0.5
    D = spec.D
    n, m = D.shape
    _SCALE[0] = max(1.0, float(np.abs(D).sum()))
    recipe = r.choice(gen.LAYOUTS)
    t = gen.apply_layout(biom, spec, recipe, r)
    st = gen.layout_state(t)
    ctx.cls('layout_state', st)
    ctx.cls('values', spec.classes['values'])
    if st.startswith('csc'):
        ctx.count('layout_csc_seen')
    desc = {'table': spec.describe(), 'recipe': recipe, 'layout': st}

    def fail(sig, msg):
        if sig == 'to_dataframe-sparse-nan-for-zero':
            # recorded without aborting the case, so that a listed finding
            # cannot mask the rest of the battery
            ctx.violation(index, 'C19/' + sig, '%s; case=%r' % (msg, desc))
            return
        raise Violation('C19/' + sig, '%s; case=%r' % (msg, desc))
    # read-only accessors in random order (they change the stored layout)
    battery = ['sum', 'minmax', 'nzc', 'density', 'reduce', 'stats',
               'summarize', 'dataframe', 'mddf']
    r.shuffle(battery)
    for what in battery:
        if what == 'sum':
            if not close([t.sum()], [D.sum()]) and \
                    not close(t.sum('whole'), D.sum()):
                fail('sum-whole', '%r vs %r' % (t.sum(), D.sum()))
            if not close(t.sum('sample'), D.sum(axis=0)):
                fail('sum-sample', '%r vs %r' % (t.sum('sample'),
                                                 D.sum(axis=0)))
            if not close(t.sum('observation'), D.sum(axis=1)):
                fail('sum-observation', '%r vs %r' % (t.sum('observation'),
                                                      D.sum(axis=1)))
            ctx.count('sum_checked')
        elif what == 'minmax':
            for axis, V in (('observation', D), ('sample', D.T)):
                if V.size and np.all(np.any(V != 0, axis=1)):
                    emin = [row[row != 0].min() for row in V]
                    emax = [row[row != 0].max() for row in V]
                    if not snap.bits_equal(t.min(axis), emin):
                        fail('min-' + axis, '%r vs %r' % (t.min(
                            axis).tolist(), emin))
                    if not snap.bits_equal(t.max(axis), emax):
                        fail('max-' + axis, '%r vs %r' % (t.max(
                            axis).tolist(), emax))
                    ctx.count('minmax_checked')
                    if any(np.all(row[row != 0] < 0) and np.any(row == 0)
                           for row in V):
                        ctx.count('minmax_negative_only_vectors')
            if D.size and np.all(np.any(D != 0, axis=0)):
                nz = D[D != 0]
                if float(t.min('whole')) != nz.min() or \
                        float(t.max('whole')) != nz.max():
                    fail('minmax-whole', '%r/%r vs %r/%r' % (
                        t.min('whole'), t.max('whole'), nz.min(), nz.max()))
        elif what == 'nzc':
            for binary in (True, False):
                for axis, ref in (
                        ('sample', (D != 0).sum(axis=0) if binary else
                         D.sum(axis=0)),
                        ('observation', (D != 0).sum(axis=1) if binary else
                         D.sum(axis=1)),
                        ('whole', [(D != 0).sum() if binary else D.sum()])):
                    got = t.nonzero_counts(axis, binary=binary)
                    if not close(got, np.asarray(ref, dtype=float)):
                        fail('nonzero_counts-%s-%s' % (axis, binary),
                             '%r vs %r' % (np.asarray(got).tolist(),
                                           np.asarray(ref).tolist()))
            ctx.count('nonzero_counts_checked')
        elif what == 'density':
            ref = np.count_nonzero(D) / float(n * m)
            if abs(t.get_table_density() - ref) > 1e-15:
                fail('density', '%r vs %r' % (t.get_table_density(), ref))
            if t.nnz != np.count_nonzero(D):
                fail('nnz', '%r vs %r' % (t.nnz, np.count_nonzero(D)))
        elif what == 'reduce':
            import operator
            for axis, V in (('observation', D), ('sample', D.T)):
                got = t.reduce(operator.add, axis)
                if not close(got, V.sum(axis=1)):
                    fail('reduce-add-' + axis, '%r vs %r' % (
                        got.tolist(), V.sum(axis=1).tolist()))
                got = t.reduce(lambda a, b: a if a >= b else b, axis)
                if not snap.bits_equal(got, V.max(axis=1)):
                    fail('reduce-max-' + axis, '%r vs %r' % (
                        got.tolist(), V.max(axis=1).tolist()))
                # other kinds of callables: numpy ufuncs, builtins, callable
                # objects, order-sensitive folds (vector order = id order)
                import functools

                class Sub:
                    def __call__(self, a, b):
                        return a - b
                for nm, f, exact in (
                        ('np.add', np.add, False),
                        ('np.maximum', np.maximum, True),
                        ('np.minimum', np.minimum, True),
                        ('builtin-max', max, True),
                        ('callable-sub', Sub(), False),
                        ('partial-2a+b', functools.partial(
                            lambda k, a, b: k * a + b, 2.0), False)):
                    if not V.shape[1]:
                        continue
                    with np.errstate(all='ignore'):
                        ref = np.array([functools.reduce(
                            f, [float(x) for x in row]) for row in V])
                        got = t.reduce(f, axis)
                    if not np.all(np.isfinite(ref)):
                        continue
                    ok = snap.bits_equal(got, ref) if exact else \
                        close(got, ref)
                    if np.shape(got) != ref.shape or not ok:
                        fail('reduce-%s-%s' % (nm, axis), '%r vs %r' % (
                            np.asarray(got).tolist(), ref.tolist()))
                    ctx.count('reduce_callable_kinds_checked')
            ctx.count('reduce_checked')
        elif what == 'stats':
            from biom.util import compute_counts_per_sample_stats
            for binary in (False, True, np.bool_(True), 1, np.bool_(False),
                           0):
                per = (D != 0).sum(axis=0).astype(float) if binary else \
                    D.sum(axis=0)
                mn, mx, med, mean, counts = compute_counts_per_sample_stats(
                    t, binary_counts=binary)
                if not close([mn, mx, med, mean], [per.min(), per.max(),
                                                   np.median(per),
                                                   per.mean()]):
                    fail('stats-%s' % binary, '%r vs %r' % (
                        [mn, mx, med, mean], [per.min(), per.max(),
                                              np.median(per), per.mean()]))
                if [str(k) for k in counts] != spec.samp_ids or \
                        not close(list(counts.values()), per):
                    fail('stats-counts-%s' % binary, '%r vs %r' % (
                        counts, dict(zip(spec.samp_ids, per.tolist()))))
            ctx.count('stats_checked')
            if D.shape[1] >= 2 and D.any() and r.random() < .3:
                # a sample whose count is not a finite number (a NaN cell, or
                # +inf and -inf together): the statistics of the counts are
                # what numpy computes for them, NaN included
                D2 = D.copy()
                j = r.randrange(1, D.shape[1])
                i = r.randrange(D.shape[0])
                D2[i, j] = r.choice([float('nan'), float('inf'),
                                     float('-inf')])
                t2 = biom.Table(D2.copy(), list(spec.obs_ids),
                                list(spec.samp_ids))
                per = D2.sum(axis=0)
                with np.errstate(all='ignore'):
                    ref = [per.min(), per.max(), np.median(per), per.mean()]
                    mn, mx, med, mean, counts = \
                        compute_counts_per_sample_stats(t2)
                got = [float(mn), float(mx), float(med), float(mean)]
                if not np.allclose(got, ref, rtol=1e-12, atol=1e-12 *
                                   _SCALE[0], equal_nan=True):
                    fail('stats-non-finite', 'counts %r: min/max/median/mean '
                         '%r vs %r' % (per.tolist(), got, ref))
                ctx.count('stats_with_non_finite_count')
            if np.count_nonzero(D) >= 2 and r.random() < .3:
                # a cell set to zero through the public matrix_data handle
                # stays stored: a stored zero is not a non-zero count
                t3 = biom.Table(D.copy(), list(spec.obs_ids),
                                list(spec.samp_ids))
                asked_first = r.random() < .6
                if asked_first:
                    # the counts were asked for before the cell went to zero
                    if t3.nnz != np.count_nonzero(D):
                        fail('nnz', '%r vs %r' % (t3.nnz,
                                                  np.count_nonzero(D)))
                    t3.get_table_density()
                    repr(t3)
                mat = t3.matrix_data
                k = r.randrange(len(mat.data))
                mat.data[k] = 0.0
                D3 = np.asarray(mat.toarray(), dtype=float)
                want = int(np.count_nonzero(D3))

                def q_counts():
                    if t3.nnz != want or not close(
                            [t3.get_table_density()], [want / D3.size]) or \
                            ('with %d nonzero entries' % want) not in repr(t3):
                        fail('nnz-after-stored-zero', 'nnz %r, density %r, '
                             '%r; the matrix has %d non-zero cells of %d '
                             '(counts asked before: %r)' %
                             (t3.nnz, t3.get_table_density(), repr(t3), want,
                              D3.size, asked_first))

                binary_order = [False, True]
                r.shuffle(binary_order)

                def q_stats():
                    for binary in binary_order:
                        per = (D3 != 0).sum(axis=0).astype(float) if binary \
                            else D3.sum(axis=0)
                        mn, mx, med, mean, counts = \
                            compute_counts_per_sample_stats(
                                t3, binary_counts=binary)
                        if not close([mn, mx, med, mean],
                                     [per.min(), per.max(), np.median(per),
                                      per.mean()]) or \
                                not close(list(counts.values()), per):
                            fail('stats-stored-zero-%s' % binary, '%r / %r '
                                 'vs counts %r' % ([mn, mx, med, mean],
                                                   dict(counts),
                                                   per.tolist()))

                def q_nonzero_counts():
                    for ax, v in (('sample', (D3 != 0).sum(axis=0)),
                                  ('observation', (D3 != 0).sum(axis=1)),
                                  ('whole', np.array([(D3 != 0).sum()]))):
                        got = np.asarray(t3.nonzero_counts(ax)).reshape(-1)
                        if got.tolist() != v.tolist():
                            fail('nonzero-counts-stored-zero', '%s: %r vs %r'
                                 % (ax, got.tolist(), v.tolist()))
                def q_minmax():
                    for ax, axn in (('sample', 0), ('observation', 1)):
                        vecs = D3.T if ax == 'sample' else D3
                        if not all(np.any(v != 0) for v in vecs):
                            continue
                        mn_ = np.asarray(t3.min(ax)).reshape(-1)
                        mx_ = np.asarray(t3.max(ax)).reshape(-1)
                        wmn = [float(v[v != 0].min()) for v in vecs]
                        wmx = [float(v[v != 0].max()) for v in vecs]
                        if mn_.tolist() != wmn or mx_.tolist() != wmx:
                            fail('minmax-stored-zero', '%s: min %r max %r, '
                                 'the non-zero values give %r / %r' %
                                 (ax, mn_.tolist(), mx_.tolist(), wmn, wmx))

                def q_minmax_whole():
                    if not all(np.any(v != 0) for v in D3.T):
                        return          # min/max walk the samples
                    nzv = D3[D3 != 0]
                    got = (float(t3.min('whole')), float(t3.max('whole')))
                    if got != (float(nzv.min()), float(nzv.max())):
                        fail('minmax-whole-stored-zero', 'min/max over the '
                             'whole table %r, the non-zero values give %r' %
                             (got, (float(nzv.min()), float(nzv.max()))))

                def q_listed():
                    got = sorted((str(a), str(b)) for a, b in t3.nonzero())
                    want_ = sorted((spec.obs_ids[i], spec.samp_ids[j])
                                   for i, j in zip(*np.nonzero(D3)))
                    if got != want_:
                        fail('nonzero-stored-zero', 'nonzero() lists %r, the '
                             'non-zero cells are %r' % (got, want_))
                # whichever question comes first sees the stored zero
                qs = [q_counts, q_stats, q_nonzero_counts, q_minmax, q_listed,
                      q_minmax_whole]
                r.shuffle(qs)
                for q in qs:
                    q()
                ctx.count('stats_with_stored_zero')
        elif what == 'summarize':
            from biom.cli.table_summarizer import _summarize_table
            for q, o, nm in ((False, False, 'default'),
                             (True, False, 'qualitative'),
                             (False, True, 'observations'),
                             (True, True, 'qualitative')):
                text = _summarize_table(t, qualitative=q, observations=o)
                check_summary(ctx, text, spec, q, o, desc,
                              'C19/summarize-%s%s' % (nm, '-obs' if o and q
                                                      else ''))
                ctx.count('summarize_' + nm)
        elif what == 'dataframe':
            for dense in (True, False):
                df = t.to_dataframe(dense=dense)
                vals = np.asarray(df.sparse.to_dense() if not dense else df,
                                  dtype=float)
                if [str(i) for i in df.index] != spec.obs_ids or \
                        [str(c) for c in df.columns] != spec.samp_ids:
                    fail('to_dataframe-%s-labels' % dense, 'index %r columns '
                         '%r' % (list(df.index), list(df.columns)))
                if not snap.bits_equal(vals, D):
                    # mechanism-level classification: the only difference is
                    # NaN where the matrix is zero and nothing is stored
                    # (missing-value fill of the sparse frame; a zero that
                    # happens to be stored comes out as 0.0)
                    nan_for_zero = (not dense and vals.shape == D.shape and
                                    np.isnan(vals).any() and
                                    np.all(D[np.isnan(vals)] == 0)
                                    and snap.bits_equal(
                                        np.where(np.isnan(vals), 0., vals),
                                        D))
                    fail('to_dataframe-sparse-nan-for-zero' if nan_for_zero
                         else 'to_dataframe-%s-values' % dense,
                         'values %r, matrix %r' % (vals.tolist(),
                                                   D.tolist()))
            ctx.count('to_dataframe_checked')
        elif what == 'mddf':
            tm = t
            if r.random() < .3:
                # sequences given as tuples are documented to be expanded
                # into numbered columns like lists
                import copy as _copy
                s2 = spec.copy()
                hit = False
                for md2 in (s2.obs_md, s2.samp_md):
                    for e in (md2 or []):
                        for kk, vv in list(e.items()):
                            if isinstance(vv, list):
                                e[kk] = tuple(vv)
                                hit = True
                if hit:
                    tm = gen.build(biom, s2, 'dense')
                    ctx.count('metadata_given_as_tuples')
            spec_m = spec
            if tm is t and r.random() < .25:
                # a list category that is empty for every id, or for all but
                # one: it spans as many numbered columns as its longest value
                s3 = spec.copy()
                hit = False
                for md3 in (s3.obs_md, s3.samp_md):
                    if md3:
                        lone = r.randrange(len(md3)) if r.random() < .5 \
                            else None
                        blank = r.choice([[], None, 'mixed'])
                        for q_, e in enumerate(md3):
                            e['lineage?'] = ['k__x', 'p__y'] if q_ == lone \
                                else ([] if blank == [] else None
                                      if blank is None or q_ == len(md3) - 1
                                      else [])
                        if lone is None and blank != []:
                            # lists of one length, the last id without any
                            for e in md3[:-1]:
                                e['lineage?'] = ['k__x', 'p__y']
                        hit = True
                if hit:
                    tm = gen.build(biom, s3, 'dense')
                    spec_m = s3
                    ctx.count('metadata_with_empty_list_category')
            for axis in ('observation', 'sample'):
                md = spec_m.md(axis)
                if md is None:
                    try:
                        tm.metadata_to_dataframe(axis)
                    except KeyError:
                        pass
                    else:
                        fail('metadata_to_dataframe-nomd', 'no KeyError')
                    continue
                df = tm.metadata_to_dataframe(axis)
                check_mddf(df, spec_m, axis, fail)
                ctx.count('metadata_to_dataframe_checked')
    # ------------------------------------------------------------- CLI
    if index % 4 == 0:
        inp = ctx.path('c19_%d.biom' % index)
        outp = ctx.path('c19_%d.out' % index)
        try:
            if r.random() < .5:
                biom.save_table(t, inp)
            else:
                with open(inp, 'w', encoding='utf-8') as f:
                    f.write(t.to_json('vm'))
            q, o = r.choice([(False, False), (True, False), (False, True)])
            to_stdout = r.random() < .4      # no -o: the report is printed
            args = ['summarize-table', '-i', inp] + ([] if to_stdout else
                                                     ['-o', outp])
            if q:
                args.append('--qualitative')
            if o:
                args.append('--observations')
            rr = _cli(args)
            if rr.exit_code != 0:
                fail('summarize-cli-failed', '%r %r' % (rr.output[-300:],
                                                        rr.exception))
            if to_stdout:
                # (echo ends what it prints with a newline of its own)
                out_text = rr.output[:-1] if rr.output.endswith('\n') \
                    else rr.output
                check_summary(ctx, out_text, spec, q, o, desc,
                              'C19/summarize-cli')
                ctx.count('reports_printed_to_stdout')
                with open(outp, 'w') as f:
                    f.write('')
            else:
                with open(outp, encoding='utf-8') as f:
                    check_summary(ctx, f.read(), spec, q, o, desc,
                                  'C19/summarize-cli')
            ctx.count('summarize_cli')
            for flag, ids in (([], spec.samp_ids),
                              (['--observations'], spec.obs_ids)):
                rr = _cli(['table-ids', '-i', inp] + flag)
                got = rr.output.split('\n')
                if got and got[-1] == '':
                    got.pop()
                if rr.exit_code != 0 or got != ids:
                    fail('table-ids', 'printed %r, ids are %r' % (got, ids))
                ctx.count('table_ids_cli')
            hn, hm = r.randint(1, 7), r.randint(1, 7)
            os.remove(outp)
            head_stdout = r.random() < .4
            rr = _cli(['head', '-i', inp] + ([] if head_stdout else
                                             ['-o', outp]) +
                      ['-n', str(hn), '-m', str(hm)])
            if rr.exit_code != 0:
                fail('head-cli-failed', '%r %r' % (rr.output[-300:],
                                                   rr.exception))
            if head_stdout:
                text = rr.output
                ctx.count('reports_printed_to_stdout')
            else:
                with open(outp, encoding='utf-8') as f:
                    text = f.read()
            from vm import tsvspec
            o_, s_, D_, _, _ = tsvspec.decode(text)
            if o_ != spec.obs_ids[:hn] or s_ != spec.samp_ids[:hm] or \
                    not snap.bits_equal(D_, D[:hn, :hm]):
                fail('head-cli', 'head -n %d -m %d printed %r' % (hn, hm,
                                                                  text))
            ctx.count('head_cli')
            if r.random() < .5:
                # both exports in one invocation, whichever axes carry
                # metadata: each axis that has some gets its file
                outs = {'sample': outp + '.s', 'observation': outp + '.o'}
                for p_ in outs.values():
                    if os.path.exists(p_):
                        os.remove(p_)
                rr = _cli(['export-metadata', '-i', inp, '-m', outs['sample'],
                           '--observation-metadata-fp', outs['observation']])
                try:
                    if rr.exit_code != 0:
                        fail('export-metadata-failed', '%r %r' % (
                            rr.output[-300:], rr.exception))
                    for axis in ('sample', 'observation'):
                        if spec.md(axis) is None:
                            continue
                        if not os.path.exists(outs[axis]):
                            fail('export-metadata-missing-file', 'no %s '
                                 'metadata file was written (both exports '
                                 'asked for; output %r)' % (axis,
                                                            rr.output[-200:]))
                        with open(outs[axis], encoding='utf-8',
                                  newline='') as f:
                            rows = list(csv.reader(f, delimiter='\t'))
                        check_export(rows, spec, axis, fail)
                        ctx.count('export_metadata_cli')
                        ctx.count('export_metadata_both_axes_at_once')
                finally:
                    for p_ in outs.values():
                        if os.path.exists(p_):
                            os.remove(p_)
            for axis, flag in (('sample', '-m'),
                               ('observation', '--observation-metadata-fp')):
                if spec.md(axis) is None:
                    continue
                if os.path.exists(outp):
                    os.remove(outp)
                rr = _cli(['export-metadata', '-i', inp, flag, outp])
                if rr.exit_code != 0:
                    fail('export-metadata-failed', '%r %r' % (
                        rr.output[-300:], rr.exception))
                with open(outp, encoding='utf-8', newline='') as f:
                    rows = list(csv.reader(f, delimiter='\t'))
                check_export(rows, spec, axis, fail)
                ctx.count('export_metadata_cli')
        finally:
            for p in (inp, outp):
                if os.path.exists(p):
                    os.remove(p)
    rs, cs = D.sum(axis=1).tolist(), D.sum(axis=0).tolist()
    ctx.case(desc, n != m and len(set(rs)) == len(rs) and
             len(set(cs)) == len(cs))


def expected_columns(md):
    """columns / row values of the metadata export: list entries expand to
    one column per element (as many as the longest list of that category),
    shorter lists leave their remaining columns empty."""
    width = {}
    for e in md:
        for k, v in e.items():
            if isinstance(v, (list, tuple)):
                width[k] = max(width.get(k) or 0, len(v))
            else:
                width.setdefault(k, None)
    cols = []
    for k, n in width.items():
        cols += [k] if n is None else ['%s_%d' % (k, i) for i in range(n)]
    rows = []
    for e in md:
        row = []
        for k, n in width.items():
            if n is None:
                row.append(e.get(k))
            else:
                v = list(e[k]) if e.get(k) is not None else []
                row += v + [None] * (n - len(v))
        rows.append(row)
    return cols, rows


def _same(a, b):
    if b is None:
        return a is None or a != a
    if isinstance(b, bool) or isinstance(a, (bool, np.bool_)):
        return bool(a) == bool(b)
    if isinstance(b, (int, float)):
        try:
            return float(a) == float(b)
        except (TypeError, ValueError):
            return False
    return str(a) == str(b)


def check_mddf(df, spec, axis, fail):
    md = spec.md(axis)
    cols, rows = expected_columns(md)
    if [str(i) for i in df.index] != spec.ids(axis):
        fail('metadata_to_dataframe-index', '%r' % (list(df.index),))
    if list(df.columns) != cols:
        fail('metadata_to_dataframe-columns', '%r vs %r' % (list(
            df.columns), cols))
    for k, row in enumerate(rows):
        for c, v in enumerate(row):
            got = df.iloc[k, c]
            if not _same(got, v):
                fail('metadata_to_dataframe-value', 'row %d col %d: %r vs '
                     '%r' % (k, c, got, v))


def check_export(rows, spec, axis, fail):
    md = spec.md(axis)
    cols, exp = expected_columns(md)
    # column order is not part of the property (files do not preserve the
    # order of the categories); columns are matched by name
    if sorted(rows[0][1:]) != sorted(cols):
        fail('export-metadata-header', '%r vs %r' % (rows[0], cols))
    pos = {name: k for k, name in enumerate(rows[0])}
    body = rows[1:]
    if [r[0] for r in body] != spec.ids(axis):
        fail('export-metadata-ids', '%r vs %r' % ([r[0] for r in body],
                                                  spec.ids(axis)))
    for k, row in enumerate(exp):
        names = cols
        for c, v in enumerate(row):
            got = body[k][pos[names[c]]]
            if v is None:
                ok = got == ''
            elif isinstance(v, bool):
                ok = got == str(v)
            elif isinstance(v, (int, float)):
                try:
                    ok = float(got) == float(v)
                except ValueError:
                    ok = False
            else:
                ok = got == str(v)
            if not ok:
                fail('export-metadata-value', 'row %d col %d: %r vs %r' %
                     (k, c, got, v))


def stress(ctx):
    """Scale: `biom head` and `table-ids` on files with more than 100 000
    stored values, where some of the leading samples are empty within the
    leading observations (and the other way round)."""
    biom = ctx.biom
    r = ctx.rng('stress')
    for n, m in ((420, 300), (300, 420)):
        rng = np.random.default_rng(r.randrange(2 ** 32))
        D = rng.integers(1, 6, size=(n, m)).astype(float)
        D[:8, 1] = 0            # sample 1 is empty within the first rows
        D[:8, 3] = 0
        D[2, :9] = 0            # observation 2 is empty within the first cols
        obs = ['Obs%d' % i for i in range(n)]
        samp = ['Samp%d' % i for i in range(m)]
        t = biom.Table(D, obs, samp)
        for fmt in ('hdf5', 'json'):
            inp = ctx.path('c19big.%s' % fmt)
            outp = ctx.path('c19big.out')
            try:
                if fmt == 'hdf5':
                    biom.save_table(t, inp)
                else:
                    with open(inp, 'w', encoding='utf-8') as f:
                        f.write(t.to_json('vm'))
                for hn, hm in ((5, 5), (3, 7), (8, 2)):
                    if os.path.exists(outp):
                        os.remove(outp)
                    rr = _cli(['head', '-i', inp, '-n', str(hn), '-m',
                               str(hm), '-o', outp])
                    desc = {'scale': 'head -n %d -m %d on a %dx%d %s file' %
                            (hn, hm, n, m, fmt)}
                    if rr.exit_code != 0:
                        raise Violation('C19/head-cli', 'exit %s %r; %r' % (
                            rr.exit_code, rr.output[-200:], desc))
                    with open(outp, encoding='utf-8') as f:
                        text = f.read()
                    from vm import tsvspec
                    o_, s_, D_, _, _ = tsvspec.decode(text)
                    if o_ != obs[:hn] or s_ != samp[:hm] or \
                            not snap.bits_equal(D_, D[:hn, :hm]):
                        raise Violation('C19/head-cli', 'printed %r / %r, '
                                        'the leading block is %r / %r; %r' %
                                        (o_, s_, obs[:hn], samp[:hm], desc))
                    ctx.count('scale_head_cli')
                    ctx.case(desc, True)
                for flag, ids in (([], samp), (['--observations'], obs)):
                    rr = _cli(['table-ids', '-i', inp] + flag)
                    got = rr.output.split('\n')
                    if got and got[-1] == '':
                        got.pop()
                    if rr.exit_code != 0 or got != ids:
                        raise Violation('C19/table-ids', 'scale: %d ids '
                                        'printed for %d' % (len(got),
                                                            len(ids)))
            finally:
                for p_ in (inp, outp):
                    if os.path.exists(p_):
                        os.remove(p_)
