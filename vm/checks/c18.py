"""C18 -- metadata updates affect exactly the named ids and keys.

Monitors: dict reference model of add_metadata / del_metadata, snapshot of
ids / matrix / other axis, independent parser of the documented mapping-file
format (mapspec, below), add-metadata command through CliRunner.
"""
import copy
import io
import json
import os

import numpy as np

from vm import gen, snap, oracles
from vm.ctx import Violation

ID = 'C18'
TITLE = 'metadata updates affect exactly named ids/keys'
LEVEL = 'exploration'
RULE = ('generated tables with / without metadata (incl. jagged metadata '
        'left by earlier partial updates) x mappings over random subsets / '
        'supersets of the ids x axis; del_metadata for every key subset on '
        'sample / observation / whole and keys=None; mapping files from a '
        'row grammar (header, comment and blank lines, short / over-long '
        'rows, quoted fields, int (incl. negative / signed) / float / ";" / '
        '"|" columns, header overrides selecting the first k columns) parsed '
        'from lines / handle / path and through `biom add-metadata` with '
        'JSON and HDF5 output. Non-trivial: the mapping overlaps the ids '
        'partially, or overwrites an existing key, or deletes a proper key '
        'subset, or the file has a converted column; distinct = distinct '
        '(table, operation, mapping | file text, options)')
ASSUMPTIONS = [
    'mapping-file fields have no tab/newline; ids are unique, non-empty and '
    'do not start with "#"; a double quote is removed wherever it occurs and '
    'fields are stripped afterwards (documented strip_quotes behaviour)',
    'for HDF5 output the mapping covers every id, list columns are named '
    'taxonomy and int/float columns convert on every row',
]
ANCHORS = ['Table.add_metadata', 'Table.del_metadata', 'Table._cast_metadata', 'MetadataMap.from_file', '_add_metadata']
REQUIRED = ['mapfile_with_crlf_line_ends', 'mapfile_odd_separator_characters_path', 'mapfile_empty_list_levels', 'mapfile_quotes_kept', 'other_tables_rechecked', 'built_with_one_entry_object',
            'built_from_other_tables_metadata', 'add_metadata_calls', 'add_on_axis_without_metadata',
            'add_partial_overlap', 'add_overwrite_existing_key',
            'del_metadata_calls', 'del_on_jagged_metadata', 'del_keys_none',
            'del_whole', 'mapfile_parsed_lines', 'mapfile_parsed_handle',
            'mapfile_parsed_path', 'mapfile_header_override',
            'mapfile_negative_int', 'mapfile_short_rows', 'cli_runs_json',
            'cli_runs_hdf5']


def plan(tier):
    n = 5000 if tier == 'quick' else 150000
    return {'cases': n, 'shards': 16, 'min_nontrivial': 500,
            'timeout': 900 if tier == 'quick' else 3600}


# ------------------------------------------------------------------ model
def model_add(md, ids, mapping):
    """md: list of dict or None -> new list / None per the statement."""
    if md is None:
        out = [copy.deepcopy(mapping[i]) if i in mapping else {}
               for i in ids]
    else:
        out = [dict(e) for e in copy.deepcopy(md)]
        for k, i in enumerate(ids):
            if i in mapping:
                out[k].update(copy.deepcopy(mapping[i]))
    return out


def model_del(md, keys):
    if md is None:
        return None
    if keys is None:
        return None
    return [{k: v for k, v in e.items() if k not in keys} for e in md]


def check_md(t, spec, exp_obs, exp_samp, sig, desc):
    s = snap.snap(t)
    e = snap.snap_spec(spec)
    d = snap.diff(s, e, fields=('obs_ids', 'samp_ids', 'D', 'type'))
    if d:
        raise Violation(sig + '/ids-or-values-changed', '%s; case=%r' %
                        ('; '.join(d), desc))
    for axis, got, exp in (('observation', s.obs_md, exp_obs),
                           ('sample', s.samp_md, exp_samp)):
        exp = snap.canon_md(exp, len(spec.ids(axis)))
        if not snap.md_equal(got, exp):
            raise Violation(sig + '/metadata-' + axis, 'got %r, expected %r;'
                            ' case=%r' % (got, exp, desc))


def rand_entry(r, keys):
    e = {}
    for k in keys:
        e[k] = r.choice(['v%d' % r.randrange(9), r.randrange(100), 1.5,
                         ['a', 'b'], True, ''])
    return e


def run_api(ctx, r, index):
    spec = gen.gen_spec(r, max_n=5, max_m=5, md_kinds=['none', 'text', 'int',
                                                       'multi', 'taxonomy'])
    how = r.choice(['layout', 'layout', 'from-other-tables-metadata',
                    'one-entry-object-for-all-ids'])
    relatives = []      # (name, table, snapshot): tables that must not move
    if how == 'one-entry-object-for-all-ids' and (spec.obs_md or
                                                  spec.samp_md):
        # every id of an axis is given one and the same entry object
        for axis in ('observation', 'sample'):
            md = spec.md(axis)
            if md:
                e = copy.deepcopy(md[r.randrange(len(md))])
                if axis == 'observation':
                    spec.obs_md = [copy.deepcopy(e) for _ in md]
                else:
                    spec.samp_md = [copy.deepcopy(e) for _ in md]
        ref = gen.build(ctx.biom, spec, 'dense')
        pick = r.random() < .5      # the library's own entry type, or dicts

        def one(axis):
            md = ref.metadata(axis=axis)
            if md is None:
                return None
            e = md[0] if pick else dict(md[0])
            return [e for _ in md]
        t = ctx.biom.Table(spec.D.copy(), list(spec.obs_ids),
                           list(spec.samp_ids), one('observation'),
                           one('sample'), type=spec.type)
        relatives.append(('table whose metadata entry was reused', ref,
                          snap.snap(ref)))
        ctx.count('built_with_one_entry_object')
    elif how == 'from-other-tables-metadata':
        ref = gen.apply_layout(ctx.biom, spec, r.choice(gen.LAYOUTS), r)
        t = ctx.biom.Table(ref.matrix_data, ref.ids(axis='observation'),
                           ref.ids(), ref.metadata(axis='observation'),
                           ref.metadata(), type=spec.type)
        relatives.append(('table whose metadata() was passed to the '
                          'constructor', ref, snap.snap(ref)))
        ctx.count('built_from_other_tables_metadata')
    else:
        t = gen.apply_layout(ctx.biom, spec, r.choice(gen.LAYOUTS), r)
    # tables derived from t before the updates
    try:
        ax = r.choice(['observation', 'sample'])
        d1 = t.sort_order(list(spec.ids(ax))[::-1], axis=ax)
        relatives.append(('sort_order result', d1, snap.snap(d1)))
        d2 = ctx.biom.Table(t.matrix_data, t.ids(axis='observation'),
                            t.ids(), t.metadata(axis='observation'),
                            t.metadata(), type=spec.type)
        relatives.append(('table built from metadata()', d2, snap.snap(d2)))
        if r.random() < .5:
            for lab, part in t.partition(lambda i, m: len(i) % 2, axis=ax):
                relatives.append(('partition part', part, snap.snap(part)))
        if r.random() < .3:
            d3 = t.transpose()
            relatives.append(('transpose result', d3, snap.snap(d3)))
    except Exception as e:
        raise Violation('C18/harness-derivation-failed', '%s: %s' %
                        (type(e).__name__, e))
    cur = {'observation': copy.deepcopy(spec.obs_md),
           'sample': copy.deepcopy(spec.samp_md)}
    steps = []
    desc = {'table': spec.describe(), 'steps': steps, 'built': how}
    nontrivial = False
    for _ in range(r.randint(1, 4)):
        op = r.choice(['add', 'add', 'del'])
        if op == 'add':
            axis = r.choice(['observation', 'sample'])
            ids = spec.ids(axis)
            md = cur[axis]
            existing = sorted({k for e in (md or []) for k in e}, key=str)
            newkeys = ['new_a', 'new/b', 'newé']
            keys = r.sample(newkeys, r.randint(1, 2))
            if existing and r.random() < .6:
                keys.append(r.choice(existing))
                ctx.count('add_overwrite_existing_key')
                nontrivial = True
            cover = r.choice(['all', 'subset', 'subset-not-first',
                              'superset', 'disjoint'])
            if cover == 'all':
                chosen = list(ids)
            elif cover == 'subset':
                chosen = r.sample(ids, r.randint(0, len(ids)))
            elif cover == 'subset-not-first':
                chosen = r.sample(ids[1:], r.randint(0, len(ids) - 1)) \
                    if len(ids) > 1 else []
            elif cover == 'superset':
                longest = max(ids, key=len)
                chosen = list(ids) + ['ghost1', longest + '0',
                                      longest + '.rerun', ids[0] + 'x']
            else:
                longest = max(ids, key=len)
                chosen = ['ghost1', longest + '0', ids[-1] + '_b']
            chosen = [c for k, c in enumerate(chosen)
                      if c not in chosen[:k]]
            mapping = {i: rand_entry(r, keys) for i in chosen}
            if 0 < len(set(chosen) & set(ids)) < len(ids) or \
                    cover == 'superset':
                ctx.count('add_partial_overlap')
                nontrivial = True
            if md is None:
                ctx.count('add_on_axis_without_metadata')
            steps.append({'op': 'add_metadata', 'axis': axis,
                          'mapping': copy.deepcopy(mapping)})
            arg = copy.deepcopy(mapping)
            t.add_metadata(arg, axis=axis)
            ctx.count('add_metadata_calls')
            new = model_add(md, ids, mapping)
            cur[axis] = None if all(not e for e in new) else new
        else:
            axis = r.choice(['observation', 'sample', 'whole'])
            axes = ['sample', 'observation'] if axis == 'whole' else [axis]
            allkeys = sorted({k for a in axes for e in (cur[a] or [])
                              for k in e}, key=str)
            mode = r.choice(['subset', 'subset', 'none', 'absent', 'empty'])
            if mode == 'none':
                keys = None
                ctx.count('del_keys_none')
            elif mode == 'absent':
                keys = ['no-such-key']
            elif mode == 'empty':
                keys = []
            else:
                keys = r.sample(allkeys, r.randint(0, len(allkeys)))
                if 0 < len(keys) < len(allkeys):
                    nontrivial = True
            for a in axes:
                if cur[a] and len({frozenset(e) for e in cur[a]}) > 1:
                    ctx.count('del_on_jagged_metadata')
            if axis == 'whole':
                ctx.count('del_whole')
            steps.append({'op': 'del_metadata', 'axis': axis, 'keys': keys})
            t.del_metadata(keys=None if keys is None else list(keys),
                           axis=axis)
            ctx.count('del_metadata_calls')
            for a in axes:
                cur[a] = model_del(cur[a], keys)
        check_md(t, spec, cur['observation'], cur['sample'], 'C18/api',
                 desc)
        for nm, tab, sn in relatives:
            d = snap.diff(snap.snap(tab), sn)
            if d:
                raise Violation('C18/other-table-changed', 'updating the '
                                'metadata of one table changed another (%s): '
                                '%s; case=%r' % (nm, '; '.join(d), desc))
        ctx.count('other_tables_rechecked', len(relatives))
    ctx.case(desc, nontrivial)


# ---------------------------------------------------------------- mapspec
def mapspec(text, header=None, ints=(), floats=(), sc=(), pipe=(),
            strip_quotes=True):
    """Independent reading of the documented mapping-file format."""
    hdr = list(header) if header else None
    rows = []

    def clean(x):
        # double quotes are dropped unless the caller asks to keep them
        return (x.replace('"', '') if strip_quotes else x).strip()
    for raw in text.split('\n'):
        line = clean(raw)
        if not line:
            continue
        if line.startswith('#'):
            if hdr is None:
                hdr = line[1:].strip().split('\t')
            continue
        rows.append([clean(f) for f in line.split('\t')])
    rel = {}
    for row in rows:
        d = {}
        for k, name in enumerate(hdr[1:], 1):
            v = row[k] if k < len(row) else ''
            if name in sc:
                v = [e.strip() for e in v.split(';')]
            elif name in pipe:
                v = [[e.strip() for e in y.split(';')] for y in v.split('|')]
            elif name in ints:
                try:
                    v = int(v)
                except ValueError:
                    pass
            elif name in floats:
                try:
                    v = float(v)
                except ValueError:
                    pass
            d[name] = v
        rel[row[0]] = d
    return rel


def gen_mapfile(r, ids, hdf5_safe=False, full_cover=False):
    """Returns (text, options dict, expected features)."""
    cols = ['ID']
    kinds = {}
    pool = [('Text', 'text'), ('Days', 'int'), ('pH', 'float'),
            ('taxonomy', 'sc'), ('Paths', 'pipe'), ('Notes', 'text')]
    if hdf5_safe:
        pool = [p for p in pool if p[1] != 'pipe']
    for name, kind in r.sample(pool, r.randint(1, len(pool))):
        cols.append(name)
        kinds[name] = kind
    feats = set()
    lines = []
    with_header_line = r.random() < .8
    if with_header_line:
        lines.append('#' + '\t'.join(cols))
    if r.random() < .5:
        lines.insert(r.randint(0, len(lines)), '')
    listed = list(ids)
    if not full_cover:
        longest = max(ids, key=len)
        ghosts = ['ghost_0', longest + '0', longest + '.rerun', ids[0] + 'x']
        listed = r.sample(ids, r.randint(0, len(ids))) + \
            [g for g in r.sample(ghosts, r.randint(0, 3)) if g not in ids]
        if not listed:
            listed = [ids[0]]
    r.shuffle(listed)
    for i in listed:
        vals = []
        for name in cols[1:]:
            k = kinds[name]
            if k == 'text':
                v = r.choice(['soil', 'a b', 'x;y', 'é', '5', ''])
                if r.random() < .12:
                    # characters that some "split into lines" routines treat
                    # as line ends, inside a field (only \n ends a line)
                    v = r.choice(['in\x0bcell', 'form\x0cfeed', 'fs\x1csep',
                                  'next\x85line', 'ls\u2028sep',
                                  'ps\u2029sep', 'gs\x1dx'])
                    feats.add('odd-separators')
                if r.random() < .2 and not hdf5_safe:
                    v = '"' + v + ' "'
            elif k == 'int':
                v = r.choice(['0', '3', '-3', '+4', '12', '-0', '007', '010',
                              '08', '-01', '00'])
                if not hdf5_safe and r.random() < .1:
                    # what Python's int() does not read as a decimal
                    # integer stays text
                    v = r.choice(['0x1F', '0b11', '0o17', '1e3', '1,000'])
                if not hdf5_safe and r.random() < .15:
                    v = r.choice(['3.5', 'NA'])
                if v[0] in '+-':
                    feats.add('negint')
            elif k == 'float':
                v = r.choice(['6.5', '1e-3', '-2.25', '7', '.5'])
                if not hdf5_safe and r.random() < .15:
                    v = 'unknown'
            elif k == 'sc':
                v = r.choice(['k__A; p__B', 'k__A;p__B;c__C', 'k__X',
                              ' k__A ;p__B '.strip()])
                if not hdf5_safe and r.random() < .3:
                    # levels left empty are levels too (HDF5 cannot hold
                    # them: only where the output is not HDF5)
                    v = r.choice(['k__A; p__B;', 'k__A;;c__C', ';p__B',
                                  'k__A; ;', 'k__A;;'])
                    feats.add('empty-levels')
            else:
                v = r.choice(['a;b|c;d', 'a; b', 'x|y|z'])
            vals.append(v)
        row = [i] + vals
        if not hdf5_safe and r.random() < .15 and len(row) > 2:
            row = row[:r.randint(1, len(row) - 1)]
            feats.add('short')
        elif r.random() < .15:
            row = row + ['extra', 'columns']
        lines.append('\t'.join(row))
        if r.random() < .15:
            lines.append(r.choice(['#a comment\tline', '', '   ']))
    text = '\n'.join(lines) + ('\n' if r.random() < .7 else '')
    opts = {'ints': [n for n, k in kinds.items() if k == 'int'],
            'floats': [n for n, k in kinds.items() if k == 'float'],
            'sc': [n for n, k in kinds.items() if k == 'sc'],
            'pipe': [n for n, k in kinds.items() if k == 'pipe'],
            'header': None}
    if not with_header_line or r.random() < .25:
        k = r.randint(2, len(cols)) if with_header_line else len(cols)
        if hdf5_safe:
            k = len(cols)
        new = list(cols[:k])
        opts['header'] = new
        feats.add('override')
    return text, opts, feats


def run_mapfile(ctx, r, index):
    from biom.parse import MetadataMap
    from biom.cli.metadata_adder import (_int, _float, _split_on_semicolons,
                                         _split_on_semicolons_and_pipes)
    ids = gen.gen_ids(r, r.randint(1, 5), r.choice(['ascii', 'natsort',
                                                    'latin1', 'numeric']),
                      'S')
    text, opts, feats = gen_mapfile(r, ids)
    fns = {}
    fns.update(dict.fromkeys(opts['sc'], _split_on_semicolons))
    fns.update(dict.fromkeys(opts['pipe'], _split_on_semicolons_and_pipes))
    fns.update(dict.fromkeys(opts['ints'], _int))
    fns.update(dict.fromkeys(opts['floats'], _float))
    how = r.choice(['lines', 'handle', 'path'])
    desc = {'file': text, 'options': opts, 'as': how}
    kw = {}
    keep_quotes = r.random() < .25
    if keep_quotes:
        # documented keyword: leave double quotes in place
        kw['strip_quotes'] = False
        desc['strip_quotes'] = False
        ctx.count('mapfile_quotes_kept')
    elif r.random() < .2:
        kw['strip_quotes'] = True
        kw['suppress_stripping'] = False
    exp = mapspec(text, opts['header'], opts['ints'], opts['floats'],
                  opts['sc'], opts['pipe'], strip_quotes=not keep_quotes)
    p = None
    try:
        if how == 'lines':
            got = MetadataMap.from_file(text.split('\n'), process_fns=fns,
                                        header=opts['header'], **kw)
        elif how == 'handle':
            got = MetadataMap.from_file(io.StringIO(text), process_fns=fns,
                                        header=opts['header'], **kw)
        else:
            p = ctx.path('c18_%d.txt' % index)
            with open(p, 'w', encoding='utf-8', newline='') as f:
                if index % 4 == 1 and '\r' not in text:
                    # the line ends another platform writes
                    f.write(text.replace('\n', '\r\n'))
                    ctx.count('mapfile_with_crlf_line_ends')
                else:
                    f.write(text)
            got = MetadataMap.from_file(p, process_fns=fns,
                                        header=opts['header'], **kw)
    finally:
        if p and os.path.exists(p):
            os.remove(p)
    ctx.count('mapfile_parsed_' + how)
    if 'override' in feats:
        ctx.count('mapfile_header_override')
    if 'negint' in feats and opts['ints']:
        ctx.count('mapfile_negative_int')
    if 'short' in feats:
        ctx.count('mapfile_short_rows')
    if 'empty-levels' in feats:
        ctx.count('mapfile_empty_list_levels')
    if 'odd-separators' in feats:
        ctx.count('mapfile_odd_separator_characters_' + how)
    g = {k: snap.canon_value(dict(v)) for k, v in dict(got).items()}
    if set(g) != set(exp) or any(not snap.md_equal([g[k]], [exp[k]])
                                 for k in exp):
        raise Violation('C18/mapping-file-relation', 'parsed %r, the rows '
                        'describe %r; case=%r' % (g, exp, desc))
    ctx.case(desc, bool(opts['ints'] or opts['floats'] or opts['sc'] or
                        opts['pipe'] or feats))


def run_cli(ctx, r, index):
    biom = ctx.biom
    out_json = r.random() < .5
    spec = gen.gen_spec(r, max_n=4, max_m=4, id_classes=['ascii', 'natsort',
                                                         'latin1', 'numeric'],
                        md_kinds=['none', 'text', 'int'])
    t = gen.apply_layout(biom, spec, r.choice(gen.LAYOUTS[:6]), r)
    use_s = r.random() < .7
    use_o = (not use_s) or r.random() < .5
    files = []
    inp = ctx.path('c18in_%d.biom' % index)
    outp = ctx.path('c18out_%d.biom' % index)
    files += [inp, outp]
    args = ['add-metadata', '-i', inp, '-o', outp]
    exp = {'observation': copy.deepcopy(spec.obs_md),
           'sample': copy.deepcopy(spec.samp_md)}
    desc = {'table': spec.describe(), 'output': 'json' if out_json else
            'hdf5', 'files': {}}
    allopts = {'ints': set(), 'floats': set(), 'sc': set(), 'pipe': set()}
    texts = {}
    for axis, use, flag, hflag in (
            ('sample', use_s, '-m', '--sample-header'),
            ('observation', use_o, '--observation-metadata-fp',
             '--observation-header')):
        if not use:
            continue
        text, opts, feats = gen_mapfile(r, spec.ids(axis),
                                        hdf5_safe=not out_json,
                                        full_cover=not out_json)
        texts[axis] = (text, opts)
        for k in allopts:
            allopts[k] |= set(opts[k])
    # process functions are shared by both files: resolve clashes the way
    # the command does (later option groups win)
    for axis, (text, opts) in texts.items():
        p = ctx.path('c18map_%s_%d.txt' % (axis, index))
        files.append(p)
        with open(p, 'w', encoding='utf-8', newline='') as f:
            if index % 4 == 2 and '\r' not in text:
                f.write(text.replace('\n', '\r\n'))
                ctx.count('mapfile_with_crlf_line_ends')
            else:
                f.write(text)
        args += [{'sample': '-m',
                  'observation': '--observation-metadata-fp'}[axis], p]
        if opts['header']:
            args += [{'sample': '--sample-header',
                      'observation': '--observation-header'}[axis],
                     ','.join(opts['header'])]
        desc['files'][axis] = {'text': text, 'options': opts}
    for k, flag in (('sc', '--sc-separated'), ('pipe',
                                               '--sc-pipe-separated'),
                    ('ints', '--int-fields'), ('floats', '--float-fields')):
        if allopts[k]:
            args += [flag, ','.join(sorted(allopts[k]))]
    for axis, (text, opts) in texts.items():
        rel = mapspec(text, opts['header'], allopts['ints'],
                      allopts['floats'], allopts['sc'], allopts['pipe'])
        new = model_add(exp[axis], spec.ids(axis), rel)
        exp[axis] = None if all(not e for e in new) else new
    if out_json:
        args.append('--output-as-json')
    try:
        if r.random() < .5:
            biom.save_table(t, inp)
        else:
            with open(inp, 'w', encoding='utf-8') as f:
                f.write(t.to_json('vm'))
        from click.testing import CliRunner
        from biom.cli import cli
        rr = CliRunner().invoke(cli, args)
        desc['args'] = args[1:]
        if rr.exit_code != 0:
            raise Violation('C18/cli-failed', 'exit %s %r %r; case=%r' %
                            (rr.exit_code, rr.output[-300:], rr.exception,
                             desc))
        res = biom.load_table(outp)
    finally:
        for p in files:
            if os.path.exists(p):
                os.remove(p)
    check_md(res, spec, exp['observation'], exp['sample'], 'C18/cli', desc)
    ctx.count('cli_runs_json' if out_json else 'cli_runs_hdf5')
    ctx.case(desc, True)


def run_case(ctx, index):
    r = ctx.rng(index)
    k = index % 10
    if k < 5:
        run_api(ctx, r, index)
    elif k < 8:
        run_mapfile(ctx, r, index)
    else:
        run_cli(ctx, r, index)
