"""C09 -- merge is the point-wise sum over union/intersection of ids.

Monitors: dense reference model over id universes, tap on the metadata-merge
functions (M3), reach counters on the two implementations (M7), path
agreement (fast vs general) on identical operand values.
"""
import copy

import numpy as np

from vm import gen, snap, oracles
from vm.ctx import Violation

ID = 'C09'
TITLE = 'merge = pointwise sum over union/intersection'
LEVEL = 'exploration'
RULE = ('id universes of 1..6 per axis; each operand a random subset in '
        'random order (disjoint / nested / partial / identical / permuted '
        'forced in turn); integer / dyadic values incl. cancelling '
        'negatives; metadata on neither / receiver / other / both per axis; '
        'four union/intersection combinations; default, None and tapped '
        'metadata functions; list form with 1..4 operands; 8 layout recipes '
        'per operand. Non-trivial: operands overlap partially on an axis or '
        'carry metadata; distinct = distinct (operands, modes, functions)')
ASSUMPTIONS = [
    'id order of the result is not promised by the statement; sets compared',
    'values are integers or dyadic fractions so sums are exact',
    'list form is used only where the fast path is the documented route '
    '(receiver metadata-free or both functions None, union/union)',
]
ANCHORS = ['Table.merge', 'Table._fast_merge', 'Table._union_id_order', 'Table._intersect_id_order', 'prefer_self']
REQUIRED = ['merged_with_itself', 'table_subclass_operands', 'scale_many_operands', 'other_containers_of_tables', 'operand_list_reused', 'empty_axis_operand_cases', 'empty_axis_operand_merged', 'wide_universe_cases', 'fast_path_taken', 'general_path_taken', 'path_agreement_checked',
            'md_tap_calls_checked', 'empty_intersection_refused',
            'list_form', 'overlap_partial', 'overlap_disjoint',
            'overlap_nested', 'overlap_identical', 'mode_union_union',
            'mode_intersection_intersection', 'mdf_default', 'mdf_none',
            'mdf_tapped']

OVERLAPS = ['partial', 'disjoint', 'nested', 'identical', 'permuted',
            'random']
RECIPES = ['as-built', 'touch-sample', 'touch-obs', 'sort-unsort-samp',
           'sort-unsort-obs', 'csr-unsorted', 'coo-input',
           'filtered-keep-all']


def plan(tier):
    n = 5000 if tier == 'quick' else 150000
    return {'cases': n, 'shards': 16, 'min_nontrivial': 500,
            'timeout': 900 if tier == 'quick' else 3600}


def subsets(r, universe, overlap):
    u = list(universe)
    if overlap == 'identical':
        a = b = u
    elif overlap == 'permuted':
        a = u
        b = u[:]
        r.shuffle(b)
    elif overlap == 'disjoint' and len(u) >= 2:
        k = r.randint(1, len(u) - 1)
        r.shuffle(u)
        a, b = u[:k], u[k:]
    elif overlap == 'nested' and len(u) >= 2:
        a = u[:]
        b = r.sample(u, r.randint(1, len(u) - 1))
        if r.random() < .5:
            a, b = b, a
    elif overlap == 'partial' and len(u) >= 3:
        r.shuffle(u)
        k = r.randint(1, len(u) - 2)
        j = r.randint(k + 1, len(u) - 1)
        a, b = u[:j], u[k:]
    else:
        a = r.sample(u, r.randint(1, len(u)))
        b = r.sample(u, r.randint(1, len(u)))
    a, b = list(a), list(b)
    r.shuffle(a)
    r.shuffle(b)
    return a, b


def operand(r, name, obs, samp, md_obs, md_samp, vclass):
    D = np.zeros((len(obs), len(samp)))
    for i in range(len(obs)):
        for j in range(len(samp)):
            if r.random() < .7:
                if vclass == 'int':
                    D[i, j] = r.randint(-4, 9)
                else:
                    D[i, j] = r.randint(-16, 40) / 8.0
    omd = [{'src': name, 'id': i, 'k': r.randint(0, 3)} for i in obs] \
        if md_obs else None
    smd = [{'src': name, 'id': i, 'tax': [name, i]} for i in samp] \
        if md_samp else None
    return gen.Spec(obs, samp, D, omd, smd)


def md_of(spec, axis, id_):
    md = spec.md(axis)
    ids = spec.ids(axis)
    if md is None or id_ not in ids:
        return None
    return md[ids.index(id_)]


def canon(e):
    return {} if e is None else snap.canon_md([e], 1)[0]


def self_operand_case(ctx, index, r):
    """The receiver merged with itself (the same object as the other
    operand): every cell doubles, ids and metadata stay, the table itself is
    not changed."""
    spec = gen.gen_spec(r, max_n=5, max_m=5,
                        value_classes=['count', 'dyadic', 'neg', 'bigcount'])
    t = gen.apply_layout(ctx.biom, spec, r.choice(gen.LAYOUTS), r)
    before = snap.snap(t)
    kw = {}
    if r.random() < .5:
        kw = {'sample': r.choice(['union', 'intersection']),
              'observation': r.choice(['union', 'intersection'])}
    desc = {'table': spec.describe(), 'self_operand': True, 'args': kw}
    res = t.merge(t, **kw)
    g = snap.snap(res)
    if sorted(g.obs_ids) != sorted(spec.obs_ids) or \
            sorted(g.samp_ids) != sorted(spec.samp_ids):
        raise Violation('C09/self-operand-ids', 'merge of a table with '
                        'itself has ids %r / %r; case=%r' %
                        (g.obs_ids, g.samp_ids, desc))
    for a, o in enumerate(g.obs_ids):
        for b, x in enumerate(g.samp_ids):
            want = 2 * spec.D[spec.obs_ids.index(o), spec.samp_ids.index(x)]
            if not snap.bits_equal([g.D[a, b]], [want]):
                raise Violation('C09/self-operand-value', '(%r,%r) is %r, '
                                'twice the cell is %r; case=%r' %
                                (o, x, float(g.D[a, b]), float(want), desc))
    for ids_, md_, smd_ in ((g.obs_ids, g.obs_md, spec.obs_md),
                            (g.samp_ids, g.samp_md, spec.samp_md)):
        own = spec.obs_ids if ids_ is g.obs_ids else spec.samp_ids
        want_md = snap.canon_md(smd_, len(own))
        for k, i in enumerate(ids_):
            if not snap.md_equal([md_[k]], [want_md[own.index(i)]]):
                raise Violation('C09/self-operand-metadata', '%r carries %r, '
                                'its metadata is %r; case=%r' %
                                (i, md_[k], want_md[own.index(i)], desc))
    oracles.unchanged(t, before, 'C09/operand-modified', desc)
    ctx.count('merged_with_itself')
    ctx.case(desc, bool(spec.D.any()))


def run_case(ctx, index):
    r = ctx.rng(index)
    if index % 29 == 11:
        return self_operand_case(ctx, index, r)
    Table = ctx.biom.Table
    ids_cls = r.choice(['ascii', 'ascii', 'natsort', 'numeric', 'latin1',
                        'punct'])
    UO = gen.gen_ids(r, r.randint(1, 6), ids_cls, 'O')
    US = gen.gen_ids(r, r.randint(1, 6), ids_cls, 'S')
    if index % 97 == 5:
        # one merged axis beyond 256 ids, the other tiny (and the reverse)
        wide = gen.gen_ids(r, r.randint(280, 340), 'ascii', 'W')
        if r.random() < .5:
            US = wide
        else:
            UO = wide
        ctx.count('wide_universe_cases')
    ov_o = OVERLAPS[index % len(OVERLAPS)]
    ov_s = r.choice(OVERLAPS)
    ao, bo = subsets(r, UO, ov_o)
    as_, bs = subsets(r, US, ov_s)
    emptied = None
    if index % 13 == 4:
        # an operand with ids on one axis only (e.g. everything filtered
        # away): it still brings those ids into a union
        emptied = r.choice(['A-obs', 'A-samp', 'B-obs', 'B-samp'])
        if emptied == 'A-obs':
            ao = []
        elif emptied == 'A-samp':
            as_ = []
        elif emptied == 'B-obs':
            bo = []
        else:
            bs = []
        ctx.count('empty_axis_operand_cases')
    vclass = r.choice(['int', 'dyadic'])
    mdcfg = r.choice(['neither', 'neither', 'receiver', 'other', 'both',
                      'mixed'])
    a_mo, a_ms, b_mo, b_ms = {
        'neither': (0, 0, 0, 0), 'receiver': (1, 1, 0, 0),
        'other': (0, 0, 1, 1), 'both': (1, 1, 1, 1),
        'mixed': tuple(r.random() < .5 for _ in range(4))}[mdcfg]
    A = operand(r, 'A', ao, as_, a_mo and ao, a_ms and as_, vclass)
    B = operand(r, 'B', bo, bs, b_mo and bo, b_ms and bs, vclass)
    smode = r.choice(['union', 'intersection'])
    omode = r.choice(['union', 'intersection'])
    if index % 3 == 0:
        smode = omode = 'union'
    mdf = r.choice(['default', 'default', 'none', 'tapped', 'one-none'])
    ta = gen.apply_layout(ctx.biom, A, r.choice(RECIPES), r)
    tb = gen.apply_layout(ctx.biom, B, r.choice(RECIPES), r)
    if r.random() < .15:
        # user code subclasses Table; an instance of the subclass is a table
        class LabTable(ctx.biom.Table):
            pass

        def as_sub(t_):
            return LabTable(t_.matrix_data, t_.ids(axis='observation'),
                            t_.ids(), t_.metadata(axis='observation'),
                            t_.metadata(), type=t_.type)
        which = r.choice(['receiver', 'other', 'both'])
        if which in ('receiver', 'both'):
            ta = as_sub(ta)
        if which in ('other', 'both'):
            tb = as_sub(tb)
        ctx.count('table_subclass_operands')
    ctx.count('overlap_' + ov_o)
    ctx.count('mode_%s_%s' % (smode, omode))
    desc = {'A': A.describe(), 'B': B.describe(), 'sample': smode,
            'observation': omode, 'mdf': mdf, 'overlap': [ov_o, ov_s],
            'emptied': emptied,
            'layouts': [gen.layout_state(ta), gen.layout_state(tb)]}
    # ------------------------------------------------------ list form
    others_specs = [B]
    a_has_md = bool(a_mo or a_ms)
    # "If an iterable, the tables are expected to not have metadata"
    b_has_md = bool(b_mo or b_ms)
    use_list = smode == omode == 'union' and r.random() < .4 and \
        (mdf == 'none' or not (a_has_md or b_has_md))
    extra = []
    if use_list:
        for k in range(r.randint(0, 3)):
            eo, _ = subsets(r, UO, 'random')
            es, _ = subsets(r, US, 'random')
            E = operand(r, 'E%d' % k, eo, es, False, False, vclass)
            others_specs.append(E)
            extra.append(gen.apply_layout(ctx.biom, E, r.choice(RECIPES), r))
        desc['extra'] = [e.describe() for e in others_specs[1:]]
    taps = {'sample': [], 'observation': []}

    def mk(axis):
        def f(x, y):
            taps[axis].append((canon(x), canon(y), x is None, y is None))
            return {'from_self': None if x is None else x.get('src'),
                    'from_other': None if y is None else y.get('src')}
        return f
    kw = {}
    if mdf == 'none':
        kw = {'sample_metadata_f': None, 'observation_metadata_f': None}
    elif mdf == 'tapped':
        kw = {'sample_metadata_f': mk('sample'),
              'observation_metadata_f': mk('observation')}
    elif mdf == 'one-none':
        kw = {'sample_metadata_f': None}
    ctx.count('mdf_' + ('none' if mdf == 'one-none' else mdf))
    before_a = snap.snap(ta)
    before_b = snap.snap(tb)
    n0 = ctx.fast_calls[0]
    arg = [tb] + extra if use_list else tb
    container = 'list'
    if use_list:
        ctx.count('list_form')
        # "an iterable of tables": other containers, also ones that can be
        # walked only once, are either merged like the list or refused
        container = r.choice(['list', 'list', 'tuple', 'generator',
                              'iterator'])
        desc['container'] = container
        if container != 'list':
            listed = arg
            arg = {'tuple': tuple, 'iterator': iter,
                   'generator': lambda x: (t_ for t_ in x)}[container](listed)
            ctx.count('other_containers_of_tables')
    so = set(ao) | set(bo) if omode == 'union' else set(ao) & set(bo)
    ss = set(as_) | set(bs) if smode == 'union' else set(as_) & set(bs)
    if use_list:
        for E in others_specs[1:]:
            so |= set(E.obs_ids)
            ss |= set(E.samp_ids)
    try:
        res = ta.merge(arg, sample=smode, observation=omode, **kw)
    except Exception as e:
        if container != 'list' and so and ss:
            ctx.count('other_container_refused')
            oracles.unchanged(ta, before_a, 'C09/refused-but-modified', desc)
            ctx.case(desc, True)
            return
        if emptied and so and ss:
            # merging an operand without observations / samples may be
            # refused; what counts is that no wrong table comes back
            ctx.count('empty_axis_operand_refused')
            oracles.unchanged(ta, before_a, 'C09/refused-but-modified', desc)
            ctx.case(desc, True)
            return
        if not isinstance(e, ctx.TableException) and so and ss:
            raise
        if not so or not ss:
            ctx.count('empty_intersection_refused')
            oracles.unchanged(ta, before_a, 'C09/refused-but-modified', desc)
            ctx.case(desc, True)
            return
        raise Violation('C09/unexpected-refusal', '%s; case=%r' % (e, desc))
    if not so or not ss:
        raise Violation('C09/empty-intersection-accepted', 'merge returned a '
                        'table although the requested id set is empty; '
                        'case=%r' % (desc,))
    fast = ctx.fast_calls[0] > n0
    ctx.count('fast_path_taken' if fast else 'general_path_taken')
    if use_list and container == 'list':
        # the caller's list is an input too: it comes back as it went in and
        # can be used again for the same call
        expect = [tb] + extra
        if len(arg) != len(expect) or any(a is not b for a, b in
                                          zip(arg, expect)):
            raise Violation('C09/operand-list-modified', 'the list passed to '
                            'merge now has %d entries (had %d); case=%r' %
                            (len(arg), len(expect), desc))
        if index % 2 == 0:
            res_again = ta.merge(arg, sample=smode, observation=omode, **kw)
            d = snap.diff(snap.snap(res_again), snap.snap(res))
            if d:
                raise Violation('C09/second-call-differs', 'merging the same '
                                'list again gives another table: %s; '
                                'case=%r' % ('; '.join(d), desc))
            ctx.count('operand_list_reused')
    if emptied:
        ctx.count('empty_axis_operand_merged')
    s = snap.snap(res)
    if set(s.obs_ids) != so or len(s.obs_ids) != len(so):
        raise Violation('C09/observation-id-set', 'result has %r, expected '
                        'set %r; case=%r' % (s.obs_ids, sorted(so), desc))
    if set(s.samp_ids) != ss or len(s.samp_ids) != len(ss):
        raise Violation('C09/sample-id-set', 'result has %r, expected set %r;'
                        ' case=%r' % (s.samp_ids, sorted(ss), desc))
    ops = [A] + others_specs
    for a, o in enumerate(s.obs_ids):
        for b, sm in enumerate(s.samp_ids):
            e = 0.0
            for sp in ops:
                if o in sp.obs_ids and sm in sp.samp_ids:
                    e += sp.D[sp.obs_ids.index(o), sp.samp_ids.index(sm)]
            if not snap.bits_equal([s.D[a, b]], [e]):
                raise Violation('C09/cell-value/%s' % ('fast' if fast else
                                                       'general'),
                                'cell (%r,%r) is %r, the operands sum to %r; '
                                'case=%r' % (o, sm, float(s.D[a, b]), e,
                                             desc))
    if smode == omode == 'union':
        tot = sum(sp.D.sum() for sp in ops)
        if float(s.D.sum()) != float(tot):
            raise Violation('C09/grand-total', '%r vs %r; case=%r' %
                            (float(s.D.sum()), float(tot), desc))
    # ---------------------------------------------------------- metadata
    for axis, f_none in (('sample', mdf in ('none', 'one-none')),
                         ('observation', mdf == 'none')):
        got = s.md(axis)
        ids = s.ids(axis)
        any_md = any(sp.md(axis) is not None for sp in (A, B))
        for k, i in enumerate(ids):
            x = md_of(A, axis, i)
            y = md_of(B, axis, i)
            if f_none or (fast and not any_md):
                exp = {}
            elif fast:
                # fast path is only legitimate when nobody has metadata or
                # the functions are None
                exp = {} if mdf == 'none' else None
            elif mdf == 'tapped':
                exp = {'from_self': None if x is None else 'A',
                       'from_other': None if y is None else 'B'}
            else:
                exp = canon(x if x is not None else y)
            if exp is None:
                raise Violation('C09/fast-path-with-metadata', 'the '
                                'metadata-free fast path ran although an '
                                'operand carries %s metadata; case=%r' %
                                (axis, desc))
            if not snap.md_equal([got[k]], [exp]):
                raise Violation('C09/metadata/%s' % mdf, '%s %r has metadata '
                                '%r, expected %r; case=%r' %
                                (axis, i, got[k], exp, desc))
        if mdf == 'tapped' and not fast:
            calls = taps[axis]
            if len(calls) != len(ids):
                raise Violation('C09/metadata-f-call-count', '%d calls for '
                                '%d ids; case=%r' % (len(calls), len(ids),
                                                     desc))
            seen = {}
            for (cx, cy, xn, yn) in calls:
                key = cx.get('id') or cy.get('id')
                seen[key] = (cx, cy, xn, yn)
            for i in ids:
                x = md_of(A, axis, i)
                y = md_of(B, axis, i)
                if x is None and y is None:
                    continue
                c = seen.get(i)
                if c is None or c[0] != canon(x) or c[1] != canon(y) or \
                        c[2] != (x is None) or c[3] != (y is None):
                    raise Violation('C09/metadata-f-arguments', 'function '
                                    'for %s %r was given %r, expected (%r, '
                                    '%r); case=%r' % (axis, i, c, canon(x),
                                                      canon(y), desc))
                ctx.count('md_tap_calls_checked')
    oracles.unchanged(ta, before_a, 'C09/receiver-modified', desc)
    oracles.unchanged(tb, before_b, 'C09/argument-modified', desc,
                      'argument')
    # ------------------------------------------------- path agreement
    if smode == omode == 'union' and not use_list:
        A0 = gen.Spec(A.obs_ids, A.samp_ids, A.D)
        B0 = gen.Spec(B.obs_ids, B.samp_ids, B.D)
        f1 = gen.build(ctx.biom, A0, 'dense')
        f2 = gen.build(ctx.biom, B0, 'csc')
        n1 = ctx.fast_calls[0]
        rf = f1.merge(f2)
        took_fast = ctx.fast_calls[0] > n1
        A1 = gen.Spec(A.obs_ids, A.samp_ids, A.D,
                      [{'dummy': 1} for _ in A.obs_ids], None)
        g1 = gen.build(ctx.biom, A1, 'dense')
        n2 = ctx.fast_calls[0]
        try:
            rg = g1.merge(gen.build(ctx.biom, B0, 'dense'))
        except Exception:
            if not emptied:
                raise
            ctx.count('empty_axis_operand_refused')     # general path only
            rg = None
        took_general = ctx.fast_calls[0] == n2 and rg is not None
        if took_fast and took_general:
            sf, sg = snap.snap(rf), snap.snap(rg)
            if set(sf.obs_ids) != set(sg.obs_ids) or \
                    set(sf.samp_ids) != set(sg.samp_ids):
                raise Violation('C09/path-disagreement-ids', 'case=%r' %
                                (desc,))
            for a, o in enumerate(sf.obs_ids):
                for b, sm in enumerate(sf.samp_ids):
                    v = sg.D[sg.obs_ids.index(o), sg.samp_ids.index(sm)]
                    if not snap.bits_equal([sf.D[a, b]], [v]):
                        raise Violation('C09/path-disagreement-values',
                                        '(%r,%r): fast %r general %r; '
                                        'case=%r' % (o, sm, float(sf.D[a, b]),
                                                     float(v), desc))
            ctx.count('path_agreement_checked')
    partial = (0 < len(set(ao) & set(bo)) < len(set(ao) | set(bo))) or \
        (0 < len(set(as_) & set(bs)) < len(set(as_) | set(bs)))
    ctx.case(desc, bool(partial or mdcfg != 'neither'))


def setup(ctx):
    from biom.exception import TableException
    ctx.TableException = TableException
    Table = ctx.biom.Table
    orig = Table._fast_merge
    ctx.fast_calls = [0]

    def counting(self, others):
        ctx.fast_calls[0] += 1
        return orig(self, others)
    Table._fast_merge = counting


def stress(ctx):
    """Scale: 33, 40, 64, 65 and 130 tables merged in one call (list form,
    metadata-free: the fast path), ids overlapping between neighbours."""
    r = ctx.rng('stress')
    extra = gen.boundary_sizes(r, 17, 140, 2 if ctx.tier == 'quick' else 10)
    for k in (33, 40, 64, 65, 130) + tuple(extra):
        specs = []
        for j in range(k):
            obs = ['o%d' % (j % 7), 'o%d' % ((j + 1) % 7), 'only%d' % j]
            samp = ['s%d' % j, 's%d' % (j + 1)]
            D = np.array([[float(r.randint(0, 5)) for _ in samp]
                          for _ in obs])
            specs.append(gen.Spec(obs, samp, D))
        tabs = [gen.build(ctx.biom, sp, 'dense') for sp in specs]
        res = tabs[0].merge(list(tabs[1:]))
        s_ = snap.snap(res)
        so = {o for sp in specs for o in sp.obs_ids}
        ss = {x for sp in specs for x in sp.samp_ids}
        desc = {'scale': '%d tables merged in one call' % k}
        if set(s_.obs_ids) != so or set(s_.samp_ids) != ss:
            raise Violation('C09/observation-id-set', 'scale: %d / %d ids, '
                            'the operands name %d / %d; %r' %
                            (len(s_.obs_ids), len(s_.samp_ids), len(so),
                             len(ss), desc))
        for a, o in enumerate(s_.obs_ids):
            for b, x in enumerate(s_.samp_ids):
                e = sum(sp.D[sp.obs_ids.index(o), sp.samp_ids.index(x)]
                        for sp in specs if o in sp.obs_ids and
                        x in sp.samp_ids)
                if s_.D[a, b] != e:
                    raise Violation('C09/cell-value/fast', 'scale: (%r,%r) is'
                                    ' %r, the operands sum to %r; %r' %
                                    (o, x, float(s_.D[a, b]), float(e), desc))
        ctx.count('scale_many_operands')
        ctx.case(desc, True)
