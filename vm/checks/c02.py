"""C02 -- JSON (BIOM 1.0) writer emits well-formed JSON that reads back.

Monitors: strict stdlib JSON parse of both writer forms, independent decoder
of the document (vm/jsonspec.py) compared with the source snapshot (observes
the writer alone), then every reader against the source.
"""
import datetime
import gzip
import io
import json
import os

import numpy as np

from vm import gen, snap, jsonspec
from vm.ctx import Violation

ID = 'C02'
TITLE = 'JSON writer well-formed and exact'
LEVEL = 'exploration'
RULE = ('generated tables whose ids, metadata keys/values, table id, type '
        'and generated-by draw from an alphabet with quotes, backslashes, '
        'control characters, non-ASCII and astral characters; metadata '
        'values from a JSON value grammar (nested lists, ints, floats, '
        'bools, null, numpy scalars, heterogeneous keys); value classes '
        'emphasising |x|<1e-6, >6 digits, 1e300, subnormal; 13 layout '
        'recipes; both writer forms; five readers incl. gzip and chunk '
        'lists. Non-trivial: a non-zero whose "%.6f" text does not round '
        'trip, or a string needing JSON escaping, or a non-trivial metadata '
        'value; distinct = distinct (table, layout, header strings)')
ASSUMPTIONS = [
    'metadata keys are strings; no NaN/inf; no NUL (numpy unicode arrays '
    'strip trailing NULs); tuples are not generated',
    'expected metadata is the JSON normalisation of what was passed (numpy '
    'scalar -> Python number, float32 -> its exact double)',
    'table_id is compared in the document, not on read-back (the statement '
    'does not list it)',
]
ANCHORS = ['Table.to_json', 'Table.from_json', 'NpEncoder.default', 'parse_biom_table', 'load_table']
REQUIRED = ['tables_with_an_empty_axis', 'written_under_other_numpy_printoptions', 'unencodable_metadata_refused', 'reader_parse_table_string', 'reader_load_table_handle',
            'reader_cli_convert_to_json', 'writer_string_form', 'writer_direct_io_form',
            'reader_load_table', 'reader_load_table_gz',
            'reader_parse_table_handle', 'reader_parse_table_chunks',
            'reader_from_json', 'escaping_needed', 'precision_needed',
            'numpy_scalar_metadata', 'all_zero_tables', 'layout_csc_seen',
            'layout_unsorted_seen']

_CHARS = ['"', '\\', '\n', '\t', '\r', '\x01', '\x1f', '/', ' ', 'é',
          '日', '😀', "'", ',', ':', '{', '}', '[', ']', ' ', 'a', 'B', '0',
          '\\"', '\\n', '</', '\x7f', ' ']


def plan(tier):
    n = 6000 if tier == 'quick' else 200000
    return {'cases': n, 'shards': 16, 'min_nontrivial': 500,
            'timeout': 900 if tier == 'quick' else 3600}


def wild(r, lo=1, hi=6):
    return ''.join(r.choice(_CHARS) for _ in range(r.randint(lo, hi)))


def wild_ids(r, n, prefix):
    out, seen = [], set()
    while len(out) < n:
        s = (prefix if r.random() < .5 else '') + wild(r) + str(len(out))
        if r.random() < .3:
            s = s + r.choice([' ', '\n', '"'])
        if s not in seen and not s.endswith('\x00'):
            seen.add(s)
            out.append(s)
    return out


def json_value(r, depth=0):
    x = r.random()
    if x < .2:
        return wild(r, 0, 5)
    if x < .3:
        return r.randint(-10 ** 9, 10 ** 9)
    if x < .4:
        return r.choice([0.5, 1e-7, 0.1234567891, 1e300, -2.5, 1 / 3.0])
    if x < .47:
        return r.random() < .5
    if x < .53:
        return None
    if x < .6:
        return np.int64(r.randint(-5, 5))
    if x < .66:
        return np.float64(r.choice([0.1, 1e-9, 12345.678901234]))
    if x < .7:
        return np.float32(r.choice([0.1, 1.5, 1e-7]))
    if x < .75:
        return np.bool_(r.random() < .5)
    if x < .8 and depth == 0:
        # a numpy array as a value (what array-producing code hands over)
        return r.choice([np.array(['k__A', 'p__é']), np.array([1, 2, 3]),
                         np.array([0.5, 2.5e-7]), np.array([], dtype=float),
                         np.array([[1, 2], [3, 4]]),
                         # one element is still a sequence of one
                         np.array(['k__Archaea']), np.array([7]),
                         np.array([[2.5]]), np.array([True])])
    if depth < 2:
        return [json_value(r, depth + 1) for _ in range(r.randint(0, 3))]
    return wild(r, 0, 3)


def json_norm(v):
    if isinstance(v, np.bool_):
        return bool(v)
    if isinstance(v, np.integer):
        return int(v)
    if isinstance(v, np.floating):
        return float(v)
    if isinstance(v, np.ndarray):
        return [json_norm(x) for x in v.tolist()]
    if isinstance(v, (list, tuple)):
        return [json_norm(x) for x in v]
    if isinstance(v, dict):
        return {k: json_norm(x) for k, x in v.items()}
    return v


def wild_md(r, ids):
    mode = r.choice(['none', 'homog', 'hetero', 'some-none', 'some-empty'])
    if mode == 'none' or not ids:
        return None
    keys = [wild(r, 1, 4) + str(k) for k in range(r.randint(1, 3))]
    md = []
    for i in ids:
        if mode == 'some-none' and r.random() < .4:
            md.append(None)
            continue
        if mode == 'some-empty' and r.random() < .4:
            md.append({})
            continue
        ks = keys if mode != 'hetero' else r.sample(keys, r.randint(
            1, len(keys)))
        md.append({k: json_value(r) for k in ks})
    if all(not m for m in md):
        md[0] = {keys[0]: 'x'}
    return md


def has_numpy(v):
    if isinstance(v, (np.generic, np.ndarray)):
        return True
    if isinstance(v, list):
        return any(has_numpy(x) for x in v)
    if isinstance(v, dict):
        return any(has_numpy(x) for x in v.values())
    return False


def needs_escape(s):
    return any(c in '"\\' or ord(c) < 0x20 for c in s)


def unencodable_case(ctx, index, r):
    """A metadata value JSON has no form for (a date, bytes, a set, a
    Decimal ...) cannot be written so that it reads back as itself: the
    writer refuses, in both forms, rather than writing something else."""
    import datetime as _dt
    import decimal
    import pathlib
    biom = ctx.biom
    n, m = r.randint(1, 3), r.randint(1, 3)
    D = gen.gen_matrix(r, n, m, 'count', .7)
    obs = gen.gen_ids(r, n, 'ascii', 'O')
    samp = gen.gen_ids(r, m, 'ascii', 'S')
    name, val = r.choice([
        ('date', _dt.date(2020, 1, 2)), ('bytes', b'ACGT'),
        ('frozenset', frozenset(['gut'])), ('Decimal', decimal.Decimal('1.5')),
        ('complex', 3 + 4j), ('Path', pathlib.PurePosixPath('/a/b')),
        ('set', {'a'}), ('datetime', _dt.datetime(2020, 1, 2, 3, 4)),
        ('object', object()),
        # numpy scalars JSON has no form for either
        ('datetime64-ns', np.datetime64('2021-03-04T05:06:07.000000008')),
        ('datetime64-D', np.datetime64('2021-03-04')),
        # (np.timedelta64 is left out: numpy files it under np.integer, and
        # the writer treats it as the integer it is there)
        ('complex128', np.complex128(1 + 2j)), ('bytes_', np.bytes_(b'AC')),
        ('void', np.array([(1, 2.5)], dtype=[('a', 'i4'), ('b', 'f8')])[0])])
    md = [{'k': 'plain', 'v': 1} for _ in obs]
    md[r.randrange(n)]['v'] = val
    axis = r.choice(['observation', 'sample'])
    if axis == 'sample':
        md = [{'k': 'plain', 'v': 1} for _ in samp]
        md[r.randrange(m)]['v'] = val
    t = biom.Table(D, obs, samp, md if axis == 'observation' else None,
                   md if axis == 'sample' else None)
    desc = {'unencodable_metadata': name, 'axis': axis}
    for form in ('string', 'direct_io'):
        try:
            if form == 'string':
                text = t.to_json('vm')
            else:
                buf = io.StringIO()
                t.to_json('vm', direct_io=buf)
                text = buf.getvalue()
        except Exception:
            ctx.count('unencodable_metadata_refused')
            continue
        raise Violation('C02/unencodable-metadata-written', 'a %s in the '
                        'metadata was written (%s form) as %r; case=%r' %
                        (name, form, text[-200:], desc))
    ctx.case(desc, True)


def run_case(ctx, index):
    r = ctx.rng(index)
    if index % 37 == 5:
        return unencodable_case(ctx, index, r)
    biom = ctx.biom
    n, m = r.randint(1, 5), r.randint(1, 5)
    if r.random() < .06:
        # a table with no ids on one axis (or on both) is a table too
        n, m = r.choice([(0, m), (n, 0), (0, 0)])
        ctx.count('tables_with_an_empty_axis')
    vclass = r.choice(['tiny', 'manydigits', 'huge', 'subnormal', 'frac',
                       'count', 'neg', 'mixed', 'bigcount', 'dyadic'])
    D = gen.gen_matrix(r, n, m, vclass, r.choice([0.0, .3, .7, 1.0]),
                       r.choice([None, None, 'zero-row', 'zero-col',
                                 'single'])) if n and m else \
        np.zeros((n, m))
    if r.random() < .5:
        obs, samp = wild_ids(r, n, 'O'), wild_ids(r, m, 'S')
    else:
        obs = gen.gen_ids(r, n, r.choice(gen.ID_CLASSES), 'O')
        samp = gen.gen_ids(r, m, r.choice(gen.ID_CLASSES), 'S')
    ttype = r.choice([None, 'OTU table', wild(r), 'a "quoted" \\ type',
                      r.choice(gen.NULLISH),
                      r.choice(['', 'N', 'No', 'one', 'e', 'on', 'Non',
                                'Table', 'table', 'OTU'])])
    tid = r.choice([None, 'plain', wild(r), 'id, with "quotes" {x}',
                    r.choice(gen.NULLISH)])
    gby = r.choice(['vm', wild(r), 'gen "by" \\ 1.0\n', 'BIOM-Format é',
                    r.choice(gen.NULLISH)])
    spec = gen.Spec(obs, samp, D, wild_md(r, obs), wild_md(r, samp), ttype,
                    tid)
    recipe = r.choice(gen.LAYOUTS)
    t = gen.apply_layout(biom, spec, recipe, r)
    st = gen.layout_state(t)
    ctx.cls('layout_state', st)
    ctx.cls('values', vclass)
    if 'unsorted' in st:
        ctx.count('layout_unsorted_seen')
    if st.startswith('csc'):
        ctx.count('layout_csc_seen')
    date = r.choice([datetime.datetime(2022, 2, 3, 4, 5, 6, 789),
                     datetime.datetime(2022, 2, 3, 4, 5, 6),       # no usec
                     datetime.datetime(1999, 12, 31),              # midnight
                     datetime.datetime(2030, 1, 1, 23, 59, 59, 999999),
                     # dates that say which time zone they are in
                     datetime.datetime(2022, 2, 3, 4, 5, 6, 789,
                                       tzinfo=datetime.timezone.utc),
                     datetime.datetime(2022, 2, 3, 4, 5, 6,
                                       tzinfo=datetime.timezone(
                                           datetime.timedelta(hours=-9.5))),
                     datetime.datetime(1970, 1, 1)])
    ctx.cls('date', 'aware' if date.tzinfo else 'naive')
    desc = {'table': spec.describe(), 'recipe': recipe, 'layout': st,
            'generated_by': gby}
    exp = snap.snap_spec(spec)
    exp.obs_md = [json_norm(e) for e in exp.obs_md]
    exp.samp_md = [json_norm(e) for e in exp.samp_md]
    # ------------------------------------------------------ writer forms
    # how numpy *prints* numbers is a process-wide setting of the caller's;
    # what is written is the numbers
    popts = r.choice([None] * 8 + [{'legacy': '1.13'}, {'precision': 3},
                                   {'suppress': True, 'precision': 4},
                                   {'floatmode': 'fixed', 'precision': 2}])
    import contextlib
    with (np.printoptions(**popts) if popts else contextlib.nullcontext()):
        text = t.to_json(gby, creation_date=date)
        ctx.count('writer_string_form')
        buf = io.StringIO()
        t.to_json(gby, direct_io=buf, creation_date=date)
    if popts:
        desc['numpy_printoptions'] = popts
        ctx.count('written_under_other_numpy_printoptions')
    text2 = buf.getvalue()
    ctx.count('writer_direct_io_form')
    docs = []
    for nm, tx in (('string', text), ('direct_io', text2)):
        try:
            docs.append(jsonspec.loads_strict(tx))
        except jsonspec.NotStrictJSON as e:
            raise Violation('C02/malformed-json/' + nm, '%s; text=%r; '
                            'case=%r' % (e, tx[:300], desc))
    if docs[0] != docs[1]:
        diff = [k for k in set(docs[0]) | set(docs[1])
                if docs[0].get(k) != docs[1].get(k)]
        raise Violation('C02/writer-forms-differ', 'keys %r differ between '
                        'the returned string and the direct_io stream; '
                        'case=%r' % (diff, desc))
    try:
        dec = jsonspec.decode(docs[0])
    except ValueError as e:
        raise Violation('C02/document-structure', '%s; case=%r' % (e, desc))
    wsnap = snap.Snap(dec['obs_ids'], dec['samp_ids'], dec['D'],
                      snap.canon_md(dec['obs_md'], n),
                      snap.canon_md(dec['samp_md'], m), dec['type'])
    d = snap.diff(wsnap, exp)
    if d:
        raise Violation('C02/document-content', 'the document says: %s; '
                        'case=%r' % ('; '.join(d), desc))
    if dec['generated_by'] != gby or dec['date'] != date.isoformat() or \
            dec['id'] != str(tid):
        raise Violation('C02/document-header', 'generated_by %r / date %r / '
                        'id %r, passed %r / %r / %r; case=%r' %
                        (dec['generated_by'], dec['date'], dec['id'], gby,
                         date.isoformat(), str(tid), desc))
    # ------------------------------------------------------------ readers
    path = ctx.path('j%d.biom' % index)
    with open(path, 'w', encoding='utf-8') as f:
        f.write(text if index % 2 else text2)
    gz = path + '.gz'
    with gzip.open(gz, 'wb') as f:
        f.write(text.encode('utf-8'))

    def chunks(tx):
        out, i = [], 0
        while i < len(tx):
            k = r.randint(1, 40)
            out.append(tx[i:i + k])
            i += k
        return out
    try:
        readers = [('load_table', lambda: biom.load_table(path)),
                   ('load_table_gz', lambda: biom.load_table(gz)),
                   ('parse_table_handle',
                    lambda: _with_handle(biom, path)),
                   ('parse_table_chunks',
                    lambda: biom.parse_table(chunks(text))),
                   ('from_json',
                    lambda: biom.Table.from_json(json.loads(text2))),
                   ('parse_table_string', lambda: biom.parse_table(text)),
                   ('load_table_handle', lambda: _load_handle(biom, path)),
                   ('parse_table_lines', lambda: biom.parse_table(
                       text2.splitlines(True) if '\n' not in ''.join(
                           obs + samp) else chunks(text2)))]
        if index % 3 == 0:
            # through the command: JSON in, JSON out (the command's writer)
            outj = ctx.path('j%d.out.json' % index)

            def via_cli():
                from click.testing import CliRunner
                from biom.cli import cli
                args = ['convert', '-i', path, '-o', outj, '--to-json']
                if ttype in gen.TABLE_TYPES:
                    args += ['--table-type', ttype]
                rr = CliRunner().invoke(cli, args)
                if rr.exit_code != 0:
                    raise RuntimeError('biom convert exit %s: %r %r' % (
                        rr.exit_code, rr.output[-200:], rr.exception))
                with open(outj, encoding='utf-8') as f:
                    tx = f.read()
                os.remove(outj)
                jsonspec.loads_strict(tx)
                t_ = biom.Table.from_json(json.loads(tx))
                if ttype in (None, 'None'):
                    # a table without a type (written as "None") leaves the
                    # command as type "Table"; any other type is kept
                    if t_.type != 'Table':
                        raise RuntimeError('type %r for an untyped table' %
                                           (t_.type,))
                    t_.type = ttype
                t_.generated_by = gby  # and its own generated-by / date
                t_.create_date = date
                return t_
            readers.append(('cli_convert_to_json', via_cli))
        for nm, f in readers:
            try:
                t2 = f()
            except Exception as e:
                raise Violation('C02/reader-failed/' + nm, '%s: %s; case=%r'
                                % (type(e).__name__, e, desc))
            d = snap.diff(snap.snap(t2), exp)
            if d:
                raise Violation('C02/readback-differs/' + nm, '%s; case=%r' %
                                ('; '.join(d), desc))
            if t2.generated_by != gby or t2.create_date != date:
                raise Violation('C02/readback-header/' + nm, 'generated_by '
                                '%r date %r; case=%r' % (t2.generated_by,
                                                         t2.create_date,
                                                         desc))
            ctx.count('reader_' + nm)
    finally:
        for p in (path, gz):
            if os.path.exists(p):
                os.remove(p)
    strings = obs + samp + [gby, str(tid), str(ttype)]
    esc = any(needs_escape(s) for s in strings)
    prec = any(float('%f' % v) != v for v in D[D != 0].tolist())
    npmd = has_numpy(spec.obs_md) or has_numpy(spec.samp_md)
    if esc:
        ctx.count('escaping_needed')
    if prec:
        ctx.count('precision_needed')
    if npmd:
        ctx.count('numpy_scalar_metadata')
    if not D.any():
        ctx.count('all_zero_tables')
    ctx.case(desc, bool(esc or prec or npmd or spec.obs_md or spec.samp_md))


def _load_handle(biom, path):
    with open(path, encoding='utf-8') as fh:
        return biom.load_table(fh)


def _with_handle(biom, path):
    with open(path, encoding='utf-8') as fh:
        return biom.parse_table(fh)


def stress(ctx):
    """Scale: a table with more than 2**20 cells and more than 65536 stored
    values through both writer forms and one reader; and tables whose stored
    values fill whole powers of two (a writer that works in blocks ends a
    block exactly at the last value, at the last row with data, or on a
    single long row)."""
    import scipy.sparse as sp
    r = ctx.rng('stress')
    rng = np.random.default_rng(r.randrange(2 ** 32))

    def dense(n, m):
        return sp.csr_matrix(rng.integers(1, 1000, size=(n, m)) / 8.0)

    def sparse_big():
        M = sp.random(1100, 1000, density=0.07, format='csr',
                      random_state=rng,
                      data_rvs=lambda k: rng.integers(1, 1000, size=k) / 8.0)
        M.data[::97] = 1e-9
        return M

    def trailing_empty():
        # the block is full at the last row that holds data; empty rows follow
        M = sp.lil_matrix((260, 256))
        M[:256, :] = rng.integers(1, 1000, size=(256, 256)) / 8.0
        return M.tocsr()
    makers = [('sparse 1100x1000', sparse_big),
              ('dense 256x256', lambda: dense(256, 256)),
              ('one row of 65536', lambda: dense(1, 65536)),
              ('one row of 70001', lambda: dense(1, 70001)),
              ('one column of 65536', lambda: dense(65536, 1)),
              ('dense 2x32768', lambda: dense(2, 32768)),
              ('dense 512x256', lambda: dense(512, 256)),
              ('256x256 then empty rows', trailing_empty),
              ('dense 255x257', lambda: dense(255, 257))]
    for name, mk in makers:
        M = mk()
        n, m = M.shape
        obs = ['o%d' % i for i in range(n)]
        samp = ['s%d' % j for j in range(m)]
        t = ctx.biom.Table(M, obs, samp)
        D = M.toarray()
        date = datetime.datetime(2021, 1, 1)
        desc = {'stress': 'json %s, %d stored' % (name, M.nnz)}
        text = t.to_json('scale', creation_date=date)
        buf = io.StringIO()
        t.to_json('scale', direct_io=buf, creation_date=date)
        try:
            d1 = jsonspec.loads_strict(text)
            d2 = jsonspec.loads_strict(buf.getvalue())
        except ValueError as e:
            raise Violation('C02/not-json', 'scale case: %s; %r' % (e, desc))
        if d1 != d2:
            raise Violation('C02/writer-forms-differ', 'scale case; %r' %
                            desc)
        dec = jsonspec.decode(d1)
        if dec['obs_ids'] != obs or dec['samp_ids'] != samp or \
                not snap.bits_equal(dec['D'], D):
            bad = np.argwhere(dec['D'] != D)
            raise Violation('C02/document-content', 'scale case: %d cells '
                            'differ, first %r; %r' % (len(bad),
                                                      bad[:1].tolist(), desc))
        t2 = ctx.biom.parse_table(io.StringIO(text))
        if not snap.bits_equal(t2.matrix_data.toarray(), D):
            raise Violation('C02/readback-differs/parse_table_handle',
                            'scale case; %r' % desc)
        ctx.count('scale_cases')
        ctx.case(desc, True)
