"""C15 -- the validator accepts what the library writes, rejects corruption.

Level: fault enumeration.  Every single mutation of a finite grammar is
applied to each seed file (JSON through the parsed document, HDF5 through raw
h5py on a copy), plus sampled pairs; the validator's verdict is observed
through _validate_table and (sampled) the validate-table command.
"""
import copy
import json
import os
import shutil

import h5py
import numpy as np

from vm import gen, snap, jsonspec
from vm.ctx import Violation

ID = 'C15'
TITLE = 'validator accepts writer output, rejects corruption'
LEVEL = 'fault_enumeration'
RULE = ('per seed table (generated, vocabulary type, C01/C02 string '
        'alphabets): acceptance of the library-written JSON and HDF5 file, '
        'then ALL single mutations of the grammar (JSON: %d operator '
        'instances; HDF5: %d) and sampled pairs; each mutant is one case, '
        'labelled must-reject or free by the grammar. Every mutant is '
        'non-trivial; distinct = distinct (seed table, format, operators)')
ASSUMPTIONS = [
    'a validator crash / non-zero exit counts as "not reported valid"',
    'must-reject labels cover exactly the corruptions the statement lists; '
    'other mutants are free but, if a numeric-typed JSON mutant is reported '
    'valid, it must load to what an independent decoder reads from it',
    'an integer literal where the element type says float is labelled free '
    '(the statement does not say whether 1 is a wrong-typed 1.0)',
]
ANCHORS = ['TableValidator._validate_json', 'TableValidator._validate_hdf5', 'TableValidator._valid_sparse_data', 'TableValidator._valid_dense_data', 'TableValidator._valid_rows', 'TableValidator._valid_columns', 'TableValidator._valid_hdf5_metadata_v210', 'Table.to_json', 'Table.to_hdf5']
REQUIRED = ['accept_under_another_file_name', 'accept_subset_command_output', 'subset_requests_naming_an_id_twice', 'must_reject_through_command', 'dressed_documents_accepted_and_loaded', 'files_with_utc_offset_in_date', 'accept_with_explicit_version',
            'must_reject_with_explicit_version', 'accept_json', 'accept_hdf5', 'accept_after_load', 'accept_cli', 'json_mutants',
            'hdf5_mutants', 'pair_mutants', 'must_reject_checked',
            'accepted_and_loaded']

JSON_KEYS = ['id', 'format', 'format_url', 'type', 'generated_by', 'date',
             'rows', 'columns', 'matrix_type', 'matrix_element_type',
             'shape', 'data']
H5_ATTRS = ['id', 'type', 'format-url', 'format-version', 'generated-by',
            'creation-date', 'shape', 'nnz']
H5_GROUPS = ['observation', 'observation/matrix', 'observation/metadata',
             'observation/group-metadata', 'sample', 'sample/matrix',
             'sample/metadata', 'sample/group-metadata']
H5_DATASETS = ['observation/ids', 'observation/matrix/data',
               'observation/matrix/indices', 'observation/matrix/indptr',
               'sample/ids', 'sample/matrix/data', 'sample/matrix/indices',
               'sample/matrix/indptr']


def plan(tier):
    n = 96 if tier == 'quick' else 2400
    return {'cases': n, 'shards': 16, 'min_nontrivial': 1000,
            'exhaustive': True,
            'timeout': 900 if tier == 'quick' else 3600}


# ----------------------------------------------------------- JSON operators
def json_ops(doc):
    """[(name, family, must_reject, function(doc)->None or raises Skip)]"""
    n, m = doc['shape']
    ops = []

    def add(name, fam, must, f):
        ops.append((name, fam, must, f))
    for k in JSON_KEYS:
        add('delete-key:' + k, 'key:' + k, True,
            lambda d, k=k: d.pop(k))
        add('rename-key:' + k, 'key:' + k, True,
            lambda d, k=k: d.__setitem__(k + '_x', d.pop(k)))
    for ax, key in (('rows', 'rows'), ('columns', 'columns')):
        for fld in ('id', 'metadata'):
            add('delete-%s-field:%s' % (ax, fld), ax, True,
                lambda d, key=key, fld=fld: d[key][-1].pop(fld))
        add('duplicate-id:' + ax, ax, None,   # must iff >= 2 entries
            lambda d, key=key: _dup_id(d, key))
        # ids that are not JSON strings: read as their text, so 7 and "7"
        # are one id twice
        for nm, raw in (('int', 7), ('float', 1.5), ('bool', True)):
            add('typed-duplicate-id-%s:%s' % (nm, ax), ax, None,
                lambda d, key=key, raw=raw: _typed_dup(d, key, raw))
        add('id-number:' + ax, ax, None,
            lambda d, key=key: d[key][0].__setitem__('id', 12345))
        add('blank-id:' + ax, ax, True,
            lambda d, key=key: d[key][0].__setitem__('id', ''))
        for nm, val in (('list', [1, 2]), ('string', 'x'), ('number', 7)):
            add('metadata-%s:%s' % (nm, ax), ax, True,
                lambda d, key=key, val=val: d[key][-1].__setitem__(
                    'metadata', val))
    for ax in (0, 1):
        add('shape+1:%d' % ax, 'shape', True,
            lambda d, ax=ax: d['shape'].__setitem__(ax, d['shape'][ax] + 1))
        add('shape-1:%d' % ax, 'shape', True,
            lambda d, ax=ax: d['shape'].__setitem__(ax, d['shape'][ax] - 1))
    add('shape-swapped', 'shape', None if n == m else True,
        lambda d: d.__setitem__('shape', d['shape'][::-1]))
    add('shape-float', 'shape', True,
        lambda d: d.__setitem__('shape', [d['shape'][0] + 0.5,
                                          d['shape'][1]]))
    add('shape-strings', 'shape', True,
        lambda d: d.__setitem__('shape', [str(x) for x in d['shape']]))
    add('shape-arity1', 'shape', True,
        lambda d: d.__setitem__('shape', d['shape'][:1]))
    add('shape-arity3', 'shape', True,
        lambda d: d.__setitem__('shape', d['shape'] + [1]))
    coords = [('row=n', [n, 0, 1.0], True), ('col=m', [0, m, 1.0], True),
              ('row=n,col=m', [n, m, 1.0], True),
              ('row=-1', [-1, 0, 1.0], True), ('col=-1', [0, -1, 1.0], True),
              ('row=n+5', [n + 5, 0, 1.0], True),
              ('col=m+1', [0, m + 1, 1.0], True),
              ('row-string', ['0', 0, 1.0], True),
              ('col-float', [0, 0.0, 1.0], True),
              ('row-bool', [True, 0, 1.0], True),
              ('value-string', [0, 0, 'x'], True),
              ('value-null', [0, 0, None], True),
              ('value-list', [0, 0, [1.0]], True),
              ('value-int', [0, 0, 1], None),
              ('two-elements', [0, 0], True),
              ('four-elements', [0, 0, 1.0, 2.0], True),
              ('not-a-list', 5, True)]
    for nm, ent, must in coords:
        add('append-coord:' + nm, 'data', must,
            lambda d, ent=ent: d['data'].append(copy.deepcopy(ent)))
    # one coordinate listed more than once (the cell is the sum), small and
    # at the edge of the 64-bit integers
    add('repeat-coordinate:copy', 'data', None, _repeat_first)
    for nm, val in (('2^62-int', 2 ** 62), ('2^53+1-int', 2 ** 53 + 1),
                    ('small-int', 3), ('float', 0.25)):
        add('repeat-coordinate:' + nm, 'data', None,
            lambda d, val=val: _repeat_value(d, val))
    add('matrix_type-dense-raw', 'mtype', None,
        lambda d: d.__setitem__('matrix_type', 'dense'))
    add('matrix_type-dense-reencoded', 'mtype', None, _to_dense)
    # dense documents (the format allows them, the library writes sparse):
    # nothing is demanded of the verdict, but one reported valid must load
    # to the shape, ids and values it declares (third clause)
    def dense_then(f):
        def g(d):
            _to_dense(d)
            f(d)
        return g

    def _empty_axis(d, key, k):
        if not d['data'] or not d['data'][0]:
            raise Skip()
        d[key] = []
        d['shape'][k] = 0
    add('dense:empty-rows-data-kept', 'dense', None,
        dense_then(lambda d: _empty_axis(d, 'rows', 0)))
    add('dense:empty-columns-data-kept', 'dense', None,
        dense_then(lambda d: _empty_axis(d, 'columns', 1)))
    add('dense:row-dropped', 'dense', None,
        dense_then(lambda d: d['data'].pop() if len(d['data']) > 0
                   else None))
    add('dense:row-longer', 'dense', None,
        dense_then(lambda d: d['data'][0].append(1.0) if d['data']
                   else None))
    add('dense:row-shorter', 'dense', None,
        dense_then(lambda d: d['data'][-1].pop() if d['data'] and
                   d['data'][-1] else None))
    add('dense:value-text', 'dense', None,
        dense_then(lambda d: d['data'][0].__setitem__(0, 'x')
                   if d['data'] and d['data'][0] else None))
    add('matrix_type-unknown', 'mtype', None,
        lambda d: d.__setitem__('matrix_type', 'csr'))
    for et in ('int', 'unicode', 'complex', 'Float', 'INT', 'Int', 'FLOAT'):
        add('element_type:' + et, 'etype', None,
            lambda d, et=et: d.__setitem__('matrix_element_type', et))
    add('date-corrupt', 'date', None,
        lambda d: d.__setitem__('date', 'yesterday'))
    add('format-corrupt', 'format', None,
        lambda d: d.__setitem__('format', 'Biological Observation Matrix 9'))
    add('format_url-corrupt', 'url', None,
        lambda d: d.__setitem__('format_url', 'http://example.org'))
    return ops


class Skip(Exception):
    pass


def _dup_id(d, key):
    if len(d[key]) < 2:
        raise Skip()
    d[key][-1]['id'] = d[key][0]['id']


def _typed_dup(d, key, raw):
    if len(d[key]) < 2:
        raise Skip()
    d[key][0]['id'] = raw
    d[key][-1]['id'] = str(raw)


def _repeat_first(d):
    if d.get('matrix_type') != 'sparse' or not d['data']:
        raise Skip()
    d['data'].append(copy.deepcopy(d['data'][0]))


def _repeat_value(d, val):
    if d.get('matrix_type') != 'sparse':
        raise Skip()
    if isinstance(val, int):
        # integers only make sense in a document of integers (and only
        # where the values fit 64-bit integers: rewriting 1e300 as a
        # 301-digit integer would leave the domain of the format's readers)
        if any(abs(v) >= 2 ** 62 for _, _, v in d['data']):
            raise Skip()
        d['data'] = [[i, j, int(v)] for i, j, v in d['data']]
        d['matrix_element_type'] = 'int'
    d['data'] += [[0, 0, val], [0, 0, val]]


def _to_dense(d):
    n, m = d['shape']
    D = [[0.0] * m for _ in range(n)]
    for i, j, v in d['data']:
        D[i][j] = v
    d['data'] = D
    d['matrix_type'] = 'dense'


# ----------------------------------------------------------- HDF5 operators
def h5_ops(n, m, nnz):
    ops = []

    def add(name, fam, must, f):
        ops.append((name, fam, must, f))
    for a in H5_ATTRS:
        add('delete-attr:' + a, 'attr:' + a, True,
            lambda f, a=a: f.attrs.__delitem__(a))
        add('rename-attr:' + a, 'attr:' + a, True,
            lambda f, a=a: (f.attrs.__setitem__(a + '_x', f.attrs[a]),
                            f.attrs.__delitem__(a)))
    for g in H5_GROUPS:
        add('delete-group:' + g, 'grp:' + g.split('/')[0], True,
            lambda f, g=g: f.__delitem__(g))
        add('rename-group:' + g, 'grp:' + g.split('/')[0], True,
            lambda f, g=g: f.move(g, g + '_x'))
    for d in H5_DATASETS:
        add('delete-dataset:' + d, 'grp:' + d.split('/')[0], True,
            lambda f, d=d: f.__delitem__(d))
        add('rename-dataset:' + d, 'grp:' + d.split('/')[0], True,
            lambda f, d=d: f.move(d, d + '_x'))
    for ax in (0, 1):
        add('shape+1:%d' % ax, 'shape', True,
            lambda f, ax=ax: _h5_shape(f, ax, 1))
        add('shape-1:%d' % ax, 'shape', True,
            lambda f, ax=ax: _h5_shape(f, ax, -1))
    add('shape-swapped', 'shape', None if n == m else True,
        lambda f: f.attrs.__setitem__('shape', f.attrs['shape'][::-1]))
    for axis in ('observation', 'sample'):
        add('duplicate-id:' + axis, 'ids:' + axis, None,
            lambda f, axis=axis: _h5_dup(f, axis))
        add('blank-id:' + axis, 'ids:' + axis, True,
            lambda f, axis=axis: _h5_setid(f, axis, 0, ''))
        add('index-out-of-range:' + axis, 'idx:' + axis, None,
            lambda f, axis=axis: _h5_index(f, axis, +1))
        add('index-negative:' + axis, 'idx:' + axis, None,
            lambda f, axis=axis: _h5_index(f, axis, -1))
    add('creation-date-corrupt', 'date', None,
        lambda f: f.attrs.__setitem__('creation-date', 'yesterday'))
    add('format-url-corrupt', 'url', None,
        lambda f: f.attrs.__setitem__('format-url', 'http://example.org'))
    add('format-version-corrupt', 'ver', None,
        lambda f: f.attrs.__setitem__('format-version', (9, 9)))
    return ops


def _h5_shape(f, ax, d):
    s = list(f.attrs['shape'])
    s[ax] += d
    f.attrs['shape'] = s


def _h5_setid(f, axis, k, val):
    ids = f[axis + '/ids']
    if len(ids) <= k:
        raise Skip()
    ids[k] = val


def _h5_dup(f, axis):
    ids = f[axis + '/ids']
    if len(ids) < 2:
        raise Skip()
    ids[len(ids) - 1] = ids[0]


def _h5_index(f, axis, sign):
    ind = f[axis + '/matrix/indices']
    if len(ind) == 0:
        raise Skip()
    other = 'sample' if axis == 'observation' else 'observation'
    ind[len(ind) - 1] = len(f[other + '/ids']) if sign > 0 else -1


MUST_IF_APPLIED = {'duplicate-id', 'index-out-of-range', 'index-negative'}


def _isint(x):
    return isinstance(x, int) and not isinstance(x, bool)


def json_corrupt(doc):
    """Independent statement of 'must never be reported valid' over the
    final document (sound for single and combined mutations)."""
    for k in JSON_KEYS:
        if k not in doc:
            return 'required key %r missing' % k
    sh = doc['shape']
    if not isinstance(sh, list) or len(sh) != 2 or not all(_isint(x)
                                                           for x in sh):
        return 'shape is not two integers'
    for key, dim in (('rows', sh[0]), ('columns', sh[1])):
        ents = doc[key]
        if not isinstance(ents, list):
            return '%s is not a list' % key
        for e in ents:
            if not isinstance(e, dict) or 'id' not in e or \
                    'metadata' not in e:
                return '%s entry lacks id/metadata' % key
            if e['id'] == '' or e['id'] is None:
                return 'empty id in %s' % key
            if e['metadata'] is not None and not isinstance(e['metadata'],
                                                            dict):
                return 'metadata neither object nor null in %s' % key
        ids = [str(e['id']) for e in ents]
        if len(set(ids)) != len(ids):
            return 'duplicate id in %s' % key
        if len(ents) != dim:
            return 'shape disagrees with number of %s' % key
    if doc['matrix_type'] == 'sparse':
        if not isinstance(doc['data'], list):
            return 'data is not a list'
        for ent in doc['data']:
            if not isinstance(ent, list) or len(ent) != 3:
                return 'malformed coordinate'
            i, j, v = ent
            if not _isint(i) or not _isint(j):
                return 'mistyped coordinate index'
            if not (0 <= i < sh[0] and 0 <= j < sh[1]):
                return 'coordinate outside the shape'
            # "wrong type" is relative to the declared element type; only
            # the unambiguous case is demanded: a non-number where the
            # document declares a numeric type
            if doc['matrix_element_type'] in ('int', 'float') and (
                    isinstance(v, bool) or not isinstance(v, (int, float))):
                return 'element of the wrong type'
    return None


def h5_corrupt(path):
    with h5py.File(path, 'r') as f:
        for a in H5_ATTRS:
            if a not in f.attrs:
                return 'attribute %r missing' % a
        for g in H5_GROUPS:
            if g not in f:
                return 'group %r missing' % g
        for d in H5_DATASETS:
            if d not in f:
                return 'dataset %r missing' % d
        sh = list(f.attrs['shape'])
        ids = {}
        for k, axis in enumerate(('observation', 'sample')):
            raw = [x.decode('utf8') if isinstance(x, bytes) else str(x)
                   for x in f[axis + '/ids'][:]]
            ids[axis] = raw
            if len(raw) != sh[k]:
                return 'shape disagrees with number of %s ids' % axis
            if any(x == '' for x in raw):
                return 'empty %s id' % axis
            if len(set(raw)) != len(raw):
                return 'duplicate %s id' % axis
        for axis, other in (('observation', 'sample'),
                            ('sample', 'observation')):
            ind = f[axis + '/matrix/indices'][:]
            if len(ind) and (ind.min() < 0 or ind.max() >= len(ids[other])):
                return '%s index outside the shape' % axis
    return None


H5_VERSIONS = [None, '2.1', '2.1.0']      # spellings of "the current format"
JSON_VERSIONS = [None, '1.0.0']


def validate(ctx, path, version=None):
    """Returns ('valid'|'invalid'|'crash', detail)."""
    from biom.cli.table_validator import _validate_table
    try:
        ok, report = _validate_table(path, version)
    except SystemExit as e:
        return ('invalid' if e.code else 'valid'), 'SystemExit(%r)' % e.code
    except BaseException as e:
        return 'crash', '%s: %s' % (type(e).__name__, e)
    return ('valid' if ok else 'invalid'), '; '.join(report)[:300]


def _cli(args):
    from click.testing import CliRunner
    from biom.cli import cli
    return CliRunner().invoke(cli, args)


def check_loadable(ctx, path, doc, desc):
    """Third clause: an accepted numeric-typed JSON document must load to
    what the independent decoder reads from it."""
    et = doc.get('matrix_element_type')
    if not isinstance(et, str) or et.lower() not in ('int', 'float'):
        return None
    try:
        exp = jsonspec.decode(doc)
    except Exception as e:
        raise Violation('C15/accepted-undecodable', 'validator said valid '
                        'but the document is not decodable (%s); case=%r' %
                        (e, desc))
    try:
        t = ctx.biom.load_table(path)
    except Exception as e:
        raise Violation('C15/accepted-not-loadable', 'validator said valid '
                        'but load_table raised %s: %s; case=%r' %
                        (type(e).__name__, e, desc))
    s = snap.snap(t)
    # ids are text once loaded: a document id written as a JSON number is
    # the id with that text
    exp['obs_ids'] = [str(i) for i in exp['obs_ids']]
    exp['samp_ids'] = [str(i) for i in exp['samp_ids']]
    if s.obs_ids != exp['obs_ids'] or s.samp_ids != exp['samp_ids'] or \
            s.D.shape != tuple(doc['shape']) or \
            not snap.bits_equal(s.D, exp['D']):
        raise Violation('C15/accepted-loads-differently', 'loaded %r/%r/%r, '
                        'document says %r/%r/%r; case=%r' %
                        (s.obs_ids, s.samp_ids, s.D.tolist(), exp['obs_ids'],
                         exp['samp_ids'], exp['D'].tolist(), desc))
    ctx.count('accepted_and_loaded')
    return True


def run_case(ctx, index):
    r = ctx.rng(index)
    biom = ctx.biom
    spec = gen.gen_spec(r, max_n=5, max_m=5, allow_empty_text=True)
    spec.type = r.choice(gen.TABLE_TYPES)
    if r.random() < .3:
        spec.type = spec.type.upper() if r.random() < .5 else \
            spec.type.lower()
    spec.table_id = r.choice([None, 'x', 'id "q" , {', 'é'])
    t = gen.apply_layout(biom, spec, r.choice(gen.LAYOUTS), r)
    gby = r.choice(['vm', 'g "q"\\', 'BIOM-Format é'])
    base = {'table': spec.describe(), 'generated_by': gby}
    jp = ctx.path('c15_%d.json' % index)
    hp = ctx.path('c15_%d.biom' % index)
    mp = ctx.path('c15_%d.mut' % index)
    verdicts = ctx.extra.setdefault('verdicts', {})

    def tally(op, outcome):
        d = verdicts.setdefault(op, {})
        d[outcome] = d.get(outcome, 0) + 1
    try:
        # the creation date is the caller's to give: naive or with a UTC
        # offset, with or without microseconds
        from vm.checks._hdf5 import DATES
        dkw = {'creation_date': r.choice(DATES)} if r.random() < .5 else {}
        if dkw:
            base['creation_date'] = dkw['creation_date'].isoformat()
            ctx.count('files_with_given_creation_date')
            if dkw['creation_date'].tzinfo is not None:
                ctx.count('files_with_utc_offset_in_date')
        text = t.to_json(gby, **dkw)
        with open(jp, 'w', encoding='utf-8') as f:
            f.write(text)
        with h5py.File(hp, 'w') as f:
            t.to_hdf5(f, gby, compress=r.random() < .5, **dkw)
        # ------------------------------------------------------ acceptance
        for fmt, p in (('json', jp), ('hdf5', hp)):
            for ver in (JSON_VERSIONS if fmt == 'json' else H5_VERSIONS):
                v, detail = validate(ctx, p, ver)
                desc = dict(base, fmt=fmt, mutation=None,
                            format_version=ver)
                if v != 'valid':
                    raise Violation('C15/writer-output-rejected/' + fmt,
                                    'validator (format version %r) says %s '
                                    '(%s) for a file the library just wrote;'
                                    ' case=%r' % (ver, v, detail, desc))
                if ver:
                    ctx.count('accept_with_explicit_version')
            ctx.count('accept_' + fmt)
            if index % 4 == 0:
                ver = r.choice(JSON_VERSIONS if fmt == 'json'
                               else H5_VERSIONS)
                rr = _cli(['validate-table', '-i', p] +
                          (['-f', ver] if ver else []))
                if rr.exit_code != 0 or 'is a valid BIOM' not in rr.output:
                    raise Violation('C15/writer-output-rejected/cli-' + fmt,
                                    'exit %s: %r; case=%r' %
                                    (rr.exit_code, rr.output[-300:], desc))
                ctx.count('accept_cli')
            ctx.case(desc, True)
        # what a file is called says nothing about what is in it: the same
        # bytes under a name that ends in .gz / .txt / nothing are the same
        # file (the reader goes by the content)
        if index % 5 == 2:
            for src, fmt in ((jp, 'json'), (hp, 'hdf5')):
                alias = ctx.path('c15_%d_%s%s' % (index, fmt, r.choice(
                    ['.gz', '.biom.gz', '.txt', '', '.JSON', '.h5'])))
                shutil.copy(src, alias)
                try:
                    v, detail = validate(ctx, alias)
                finally:
                    os.remove(alias)
                desc = dict(base, fmt=fmt, mutation=None,
                            file_name=os.path.basename(alias))
                if v != 'valid':
                    raise Violation('C15/writer-output-rejected/renamed-' +
                                    fmt, 'validator says %s (%s) for the '
                                    'file the library wrote, under the name '
                                    '%r; case=%r' % (v, detail,
                                                     os.path.basename(alias),
                                                     desc))
                ctx.count('accept_under_another_file_name')
        # files written from tables whose history includes a load
        hp2 = ctx.path('c15_%d_b.biom' % index)
        jp2 = ctx.path('c15_%d_b.json' % index)
        try:
            tj = biom.load_table(jp)
            with h5py.File(hp2, 'w') as f:
                tj.to_hdf5(f, gby)
            th = biom.load_table(hp)
            with open(jp2, 'w', encoding='utf-8') as f:
                f.write(th.to_json(gby))
            th2 = biom.load_table(hp)
            hp3 = ctx.path('c15_%d_c.biom' % index)
            biom.save_table(th2, hp3)
            for what, p in (('json->hdf5', hp2), ('hdf5->json', jp2),
                            ('hdf5->hdf5', hp3)):
                v, detail = validate(ctx, p)
                desc = dict(base, fmt=what, mutation=None)
                if v != 'valid':
                    raise Violation('C15/writer-output-rejected/' + what,
                                    'validator says %s (%s) for a file '
                                    'written from a loaded table; case=%r' %
                                    (v, detail, desc))
                ctx.count('accept_after_load')
                ctx.case(desc, True)
        finally:
            for p in (hp2, jp2, ctx.path('c15_%d_c.biom' % index)):
                if os.path.exists(p):
                    os.remove(p)
        # files written by the subset-table command (the JSON slicer and the
        # HDF5 route), the ids file in any order and, now and then, naming an
        # id twice
        if index % 3 == 1:
            sp_ = ctx.path('c15_%d_s.out' % index)
            ip_ = ctx.path('c15_%d_s.ids' % index)
            try:
                ax = r.choice(['sample', 'observation'])
                ids_ = [str(i) for i in t.ids(axis=ax)]
                ask = r.sample(ids_, r.randint(1, len(ids_)))
                if r.random() < .3:
                    ask.insert(r.randrange(len(ask) + 1), r.choice(ask))
                    ctx.count('subset_requests_naming_an_id_twice')
                if all(i == i.strip() and i and '\t' not in i and
                       '\n' not in i and '\r' not in i and
                       not i.startswith('#') for i in ask):
                    with open(ip_, 'w', encoding='utf-8') as f:
                        f.write('\n'.join(ask) + '\n')
                    for flag, src in (('-j', jp), ('-i', hp)):
                        if os.path.exists(sp_):
                            os.remove(sp_)
                        rr = _cli(['subset-table', flag, src, '-a', ax, '-s',
                                   ip_, '-o', sp_])
                        desc = dict(base, fmt='subset-table ' + flag,
                                    mutation=None, asked=ask, axis=ax)
                        if rr.exit_code != 0:
                            # what the command may refuse is C14's subject
                            ctx.count('subset_command_refused')
                            continue
                        v, detail = validate(ctx, sp_)
                        if v != 'valid':
                            raise Violation('C15/writer-output-rejected/'
                                            'subset-table' + flag, 'validator '
                                            'says %s (%s) for a file the '
                                            'subset-table command wrote; '
                                            'case=%r' % (v, detail, desc))
                        ctx.count('accept_subset_command_output')
                        ctx.case(desc, True)
            finally:
                for p in (sp_, ip_):
                    if os.path.exists(p):
                        os.remove(p)
        doc0 = json.loads(text)
        check_loadable(ctx, jp, doc0, dict(base, fmt='json', mutation=None))
        # -------------------------------------------------- JSON mutants
        jops = json_ops(doc0)

        def run_json(names_fns, label):
            doc = copy.deepcopy(doc0)
            must = False
            for (name, fam, m, fn) in names_fns:
                try:
                    fn(doc)
                except Skip:
                    return
                except (KeyError, IndexError, TypeError, AttributeError,
                        ValueError):
                    return      # operator not applicable after the first one
                if len(names_fns) == 1 and m:
                    # the grammar's own label and the predicate must agree
                    must = True
            why = json_corrupt(doc)
            if must and not why:
                raise Violation('C15/harness-label-mismatch', 'operator %s '
                                'is labelled must-reject but the document '
                                'predicate finds nothing' % label)
            must = bool(why)
            with open(mp, 'w', encoding='utf-8') as f:
                json.dump(doc, f)
            v, detail = validate(ctx, mp)
            desc = dict(base, fmt='json', mutation=label, must_reject=must)
            if must and v != 'valid':
                # ... and under every spelling of the format version
                for ver in JSON_VERSIONS[1:]:
                    v2, _ = validate(ctx, mp, ver)
                    ctx.count('must_reject_with_explicit_version')
                    if v2 == 'valid':
                        v = 'valid'
                        desc['format_version'] = ver
                        break
            if must and v != 'valid' and r.random() < .08:
                rr = _cli(['validate-table', '-i', mp])
                if rr.exit_code == 0 or 'is a valid BIOM' in rr.output:
                    v = 'valid'
                    desc['via'] = 'biom validate-table (exit %s: %r)' % (
                        rr.exit_code, rr.output[-120:])
                ctx.count('must_reject_through_command')
            if v == 'valid':
                if must:
                    raise Violation('C15/corruption-accepted/json/' +
                                    label.split(':')[0].split('+')[0],
                                    'mutation %s reported valid; case=%r' %
                                    (label, desc))
                check_loadable(ctx, mp, doc, desc)
                tally('json/' + label.split('+')[0], 'accepted')
            else:
                tally('json/' + label.split('+')[0],
                      'rejected' if v == 'invalid' else 'crashed')
            if must:
                ctx.count('must_reject_checked')
            ctx.case(desc, True)
        for op in jops:
            run_json([op], op[0])
            ctx.count('json_mutants')
        # ---- the same document in other byte-level dressings: nothing is
        # demanded of the verdict, but a file reported valid must load to
        # what it declares (third clause)
        raw = json.dumps(doc0)
        dressings = [('utf8-bom', ('\ufeff' + raw).encode('utf-8')),
                     ('leading-blank-lines', ('\n\n  ' + raw).encode()),
                     ('trailing-blank-lines', (raw + '\n\n\n').encode()),
                     ('crlf-indented', json.dumps(doc0, indent=2).replace(
                         '\n', '\r\n').encode('utf-8')),
                     ('ascii-escaped', json.dumps(
                         doc0, ensure_ascii=True).encode('ascii')),
                     ('gzip', __import__('gzip').compress(raw.encode()))]
        for nm, blob in dressings:
            with open(mp, 'wb') as f:
                f.write(blob)
            v, detail = validate(ctx, mp)
            desc = dict(base, fmt='json', mutation='dressing:' + nm,
                        must_reject=False)
            if v == 'valid':
                check_loadable(ctx, mp, doc0, desc)
                ctx.count('dressed_documents_accepted_and_loaded')
            tally('json/dressing:' + nm,
                  {'valid': 'accepted', 'invalid': 'rejected',
                   'crash': 'crashed'}[v])
            ctx.case(desc, True)
        for _ in range(25):
            a, b = r.sample(jops, 2)
            if a[1] == b[1]:
                continue
            run_json([a, b], a[0] + '+' + b[0])
            ctx.count('pair_mutants')
        # -------------------------------------------------- HDF5 mutants
        n, m = spec.D.shape
        hops = h5_ops(n, m, int(np.count_nonzero(spec.D)))

        def run_h5(ops, label):
            shutil.copy(hp, mp)
            must = False
            try:
                with h5py.File(mp, 'r+') as f:
                    for (name, fam, mm, fn) in ops:
                        try:
                            fn(f)
                        except Skip:
                            return
                        except (KeyError, ValueError):
                            return
                        if len(ops) == 1 and mm:
                            must = True
            except Skip:
                return
            why = h5_corrupt(mp)
            if must and not why:
                raise Violation('C15/harness-label-mismatch', 'operator %s '
                                'is labelled must-reject but the file '
                                'predicate finds nothing' % label)
            must = bool(why)
            v, detail = validate(ctx, mp)
            desc = dict(base, fmt='hdf5', mutation=label, must_reject=must)
            if must and v != 'valid':
                # ... and under every spelling of the format version
                for ver in H5_VERSIONS[1:]:
                    v2, _ = validate(ctx, mp, ver)
                    ctx.count('must_reject_with_explicit_version')
                    if v2 == 'valid':
                        v = 'valid'
                        desc['format_version'] = ver
                        break
            if must and v != 'valid' and r.random() < .08:
                # the command itself: not "is a valid BIOM", not exit 0
                rr = _cli(['validate-table', '-i', mp])
                if rr.exit_code == 0 or 'is a valid BIOM' in rr.output:
                    v = 'valid'
                    desc['via'] = 'biom validate-table (exit %s: %r)' % (
                        rr.exit_code, rr.output[-120:])
                ctx.count('must_reject_through_command')
            if v == 'valid' and must:
                raise Violation('C15/corruption-accepted/hdf5/' +
                                label.split(':')[0].split('+')[0],
                                'mutation %s reported valid; case=%r' %
                                (label, desc))
            tally('hdf5/' + label.split('+')[0],
                  {'valid': 'accepted', 'invalid': 'rejected',
                   'crash': 'crashed'}[v])
            if must:
                ctx.count('must_reject_checked')
            ctx.case(desc, True)
        for op in hops:
            run_h5([op], op[0])
            ctx.count('hdf5_mutants')
        for _ in range(10):
            a, b = r.sample(hops, 2)
            if a[1] == b[1] or a[1].split(':')[-1] == b[1].split(':')[-1]:
                continue
            run_h5([a, b], a[0] + '+' + b[0])
            ctx.count('pair_mutants')
    finally:
        for p in (jp, hp, mp):
            if os.path.exists(p):
                os.remove(p)


def summarize(counters, extra, tier):
    tot = {}
    for shard in extra.get('verdicts', []):
        for op, d in shard.items():
            t = tot.setdefault(op, {})
            for k, v in d.items():
                t[k] = t.get(k, 0) + v
    return {'verdict_matrix_operator_x_outcome': dict(sorted(tot.items())),
            'single_mutation_layer_exhaustive': True}


_d = {'shape': [2, 2], 'data': [], 'rows': [{}, {}], 'columns': [{}, {}]}
RULE = RULE % (len(json_ops(_d)), len(h5_ops(2, 2, 1)))


def stress(ctx):
    """Scale: files with more than 65536 stored values; corruption at the
    start, middle and end of the index arrays / the data list."""
    biom = ctx.biom
    n = 300
    rng = np.random.default_rng(ctx.rng('stress').randrange(2 ** 32))
    D = rng.integers(1, 9, size=(n, n)).astype(float)
    t = biom.Table(D, ['o%d' % i for i in range(n)],
                   ['s%d' % j for j in range(n)], type='OTU table')
    hp, mp, jp = ctx.path('c15s.biom'), ctx.path('c15s.mut'), \
        ctx.path('c15s.json')
    try:
        with h5py.File(hp, 'w') as f:
            t.to_hdf5(f, 'scale')
        v, detail = validate(ctx, hp)
        if v != 'valid':
            raise Violation('C15/writer-output-rejected/hdf5', 'scale: %s' %
                            detail)
        for axis in ('observation', 'sample'):
            for pos in (0, n * n // 2, n * n - 1):
                for bad in (n, -1):
                    shutil.copy(hp, mp)
                    with h5py.File(mp, 'r+') as f:
                        f[axis + '/matrix/indices'][pos] = bad
                    v, detail = validate(ctx, mp)
                    desc = {'scale': '%s index[%d] = %d of %d' %
                            (axis, pos, bad, n * n)}
                    if v == 'valid':
                        raise Violation('C15/corruption-accepted/hdf5/'
                                        'index-out-of-range', 'scale: %r' %
                                        desc)
                    ctx.count('scale_mutants')
                    ctx.case(desc, True)
        text = t.to_json('scale')
        doc0 = json.loads(text)
        for pos in (0, len(doc0['data']) // 2, len(doc0['data']) - 1):
            for ent in ([n, 0, 1.0], [0, n, 1.0], [0, 0, 'x']):
                doc = copy.deepcopy(doc0)
                doc['data'][pos] = ent
                with open(jp, 'w') as f:
                    json.dump(doc, f)
                v, detail = validate(ctx, jp)
                desc = {'scale': 'json data[%d] = %r of %d' %
                        (pos, ent, len(doc0['data']))}
                if v == 'valid':
                    raise Violation('C15/corruption-accepted/json/append-'
                                    'coord', 'scale: %r' % desc)
                ctx.count('scale_mutants')
                ctx.case(desc, True)
    finally:
        for p in (hp, mp, jp):
            if os.path.exists(p):
                os.remove(p)
