"""C01 -- HDF5 (BIOM 2.x) write/read round trip is lossless.

Monitors: M1 snapshot of the source taken before writing vs snapshot of the
table returned by each loader; writer-purity snapshot; domain predicate over
the observed source (skips are counted, never asserted).
"""
import datetime
import os

import h5py

from vm import gen, snap
from vm.ctx import Violation
from vm.checks import _hdf5

ID = 'C01'
TITLE = 'HDF5 round trip is lossless'
LEVEL = 'exploration'
RULE = ('generated C01-domain tables (18 id classes incl. non-ASCII, "/", '
        '300-char; 11 value classes; 8 metadata kinds) x 24 layout recipes '
        'x random one-step history x {compress} x {to_hdf5(handle), '
        'save_table(path), save_table default} x {date given/omitted} x '
        'group metadata x table id; each file read by load_table(path), '
        'parse_table(handle), Table.from_hdf5(handle) for both axis views. '
        'Non-trivial: >=1 non-zero and (>=2 ids on an axis, or metadata, or '
        'a non-ASCII / "/" id); distinct = distinct (table, layout, history, '
        'write configuration)')
ASSUMPTIONS = [
    'no NUL in text (h5py variable-length strings cannot hold it)',
    'numeric categories are int-only or float-only; list categories only '
    'under taxonomy/collapsed_ids with non-empty text elements',
    'when the creation date is omitted the loaded date must lie inside the '
    'wall-clock window of the write call (only time-related oracle)',
]
ANCHORS = ['Table.to_hdf5', 'Table.from_hdf5', 'general_formatter', 'vlen_list_of_str_formatter', 'general_parser', 'vlen_list_of_str_parser', 'load_table', 'parse_biom_table', 'save_table', 'biom_open']
REQUIRED = ['numpy_scalar_metadata_categories', 'files_with_user_block', 'reserved_category_user_formatter', 'tables_read_from_subgroups', 'ragged_metadata_cases', 'loader_load_table_handle', 'format_fs_writes', 'parse_fs_reads', 'loader_load_table', 'loader_parse_table', 'loader_from_hdf5',
            'loader_from_hdf5_observation_view', 'files_written',
            'layout_csc_seen', 'layout_unsorted_seen', 'nonascii_ids',
            'slash_in_ids_or_categories', 'group_metadata_checked',
            'date_omitted_checked']


def plan(tier):
    n = 2500 if tier == 'quick' else 60000
    return {'cases': n, 'shards': 16, 'min_nontrivial': 300,
            'timeout': 900 if tier == 'quick' else 3600}


def compare_loaded(ctx, name, t2, src, cfg, wr, desc):
    got = snap.snap(t2)
    cat = cfg.get('custom_category')
    if cat and name != 'from_hdf5-parse_fs':
        # written through a custom formatter, read without its parser
        got.obs_md = _hdf5.undo_custom(got.obs_md, cat)
        got.samp_md = _hdf5.undo_custom(got.samp_md, cat)
    d = snap.diff(got, src)
    if d:
        raise Violation('C01/roundtrip-differs/' + name, '%s; case=%r' %
                        ('; '.join(d), desc))
    exp_id = cfg['table_id'] if cfg['table_id'] else 'No Table ID'
    if t2.table_id != exp_id:
        raise Violation('C01/table-id', '%r read back as %r; case=%r' %
                        (cfg['table_id'], t2.table_id, desc))
    if cfg['generated_by'] is not None and \
            t2.generated_by != cfg['generated_by']:
        raise Violation('C01/generated-by', '%r read back as %r; case=%r' %
                        (cfg['generated_by'], t2.generated_by, desc))
    if cfg['generated_by'] is None and not str(
            t2.generated_by).startswith('BIOM-Format'):
        raise Violation('C01/generated-by', 'default generated-by read back '
                        'as %r; case=%r' % (t2.generated_by, desc))
    cd = t2.create_date
    if wr['date'] is not None:
        if cd != wr['date']:
            raise Violation('C01/creation-date', '%r read back as %r; '
                            'case=%r' % (wr['date'], cd, desc))
    else:
        lo, hi = wr['window']
        if not isinstance(cd, datetime.datetime) or not (lo <= cd <= hi):
            raise Violation('C01/creation-date', 'omitted date read back as '
                            '%r, write happened in [%s, %s]; case=%r' %
                            (cd, lo, hi, desc))
        ctx.count('date_omitted_checked')
    # text payload of every group-metadata entry the written table carried
    for ax in ('observation', 'sample'):
        got = {k: v for k, v in (t2.group_metadata(axis=ax) or {}).items()}
        exp = wr['group_md'][ax]
        if got != exp:
            raise Violation('C01/group-metadata', '%s group metadata read '
                            'back %r, written %r; case=%r' % (ax, got, exp,
                                                              desc))
        if exp:
            ctx.count('group_metadata_checked')


def subgroup_case(ctx, index, r):
    """to_hdf5 writes into any HDF5 group and from_hdf5 reads from one:
    several tables kept in the groups of one file come back each as it
    was."""
    k = r.randint(2, 3)
    specs = [gen.gen_spec(r, max_n=5, max_m=5,
                          md_kinds=['none', 'text', 'int', 'taxonomy'],
                          value_classes=['count', 'frac', 'neg', 'huge'])
             for _ in range(k)]
    tabs = [gen.apply_layout(ctx.biom, sp, r.choice(gen.LAYOUTS), r)
            for sp in specs]
    srcs = [snap.snap(t) for t in tabs]
    for sn in srcs:
        why = _hdf5.in_c01_domain(sn)
        if why:
            ctx.skip('subgroup case: ' + why)
            return
    names = ['tables/t%d é' % q if q % 2 else 'grp%d' % q for q in range(k)]
    desc = {'groups': names, 'tables': [sp.describe() for sp in specs]}
    path = ctx.path('c01grp%d.biom' % index)
    try:
        with h5py.File(path, 'w') as f:
            for nm, t in zip(names, tabs):
                t.to_hdf5(f.create_group(nm), 'vm',
                          compress=r.random() < .5)
        with h5py.File(path, 'r') as f:
            order = list(range(k))
            r.shuffle(order)
            for q in order:
                t2 = ctx.biom.Table.from_hdf5(f[names[q]])
                d = snap.diff(snap.snap(t2), srcs[q])
                if d:
                    raise Violation('C01/roundtrip-differs/subgroup',
                                    'table in group %r: %s; case=%r' %
                                    (names[q], '; '.join(d), desc))
                ctx.count('tables_read_from_subgroups')
    finally:
        if os.path.exists(path):
            os.remove(path)
    ctx.case(desc, True)


def run_case(ctx, index):
    if index % 29 == 11:
        return _hdf5.ragged_case(ctx, index, ctx.rng(index), 'C01')
    if index % 31 == 17:
        return subgroup_case(ctx, index, ctx.rng(index))
    g = _hdf5.gen_case(ctx, index)
    if g is None:
        return
    t, src, desc, cfg, path, r = g
    wr = _hdf5.write(ctx, t, cfg, path)
    ctx.count('files_written')
    wr['group_md'] = {
        ax: {k: (v[1] if isinstance(v, (tuple, list)) else v)
             for k, v in (t.group_metadata(axis=ax) or {}).items()}
        for ax in ('observation', 'sample')}
    after = snap.snap(t)
    d = snap.diff(after, src)
    if d:
        raise Violation('C01/writer-modified-source', '%s; case=%r' %
                        ('; '.join(d), desc))
    try:
        t2 = ctx.biom.load_table(path)
        compare_loaded(ctx, 'load_table', t2, src, cfg, wr, desc)
        ctx.count('loader_load_table')
        import pathlib
        t2b = ctx.biom.load_table(pathlib.Path(path))
        compare_loaded(ctx, 'load_table-pathlib', t2b, src, cfg, wr, desc)
        with h5py.File(path, 'r') as f:
            t2c = ctx.biom.load_table(f)
            compare_loaded(ctx, 'load_table-handle', t2c, src, cfg, wr, desc)
            ctx.count('loader_load_table_handle')
            t3 = ctx.biom.parse_table(f)
            compare_loaded(ctx, 'parse_table', t3, src, cfg, wr, desc)
            ctx.count('loader_parse_table')
            t4 = ctx.biom.Table.from_hdf5(f)
            compare_loaded(ctx, 'from_hdf5', t4, src, cfg, wr, desc)
            ctx.count('loader_from_hdf5')
            cat = cfg.get('custom_category')
            if cat:
                t6 = ctx.biom.Table.from_hdf5(f, parse_fs={
                    cat: lambda x: (x.decode('utf8') if isinstance(x, bytes)
                                    else x)[::-1]})
                compare_loaded(ctx, 'from_hdf5-parse_fs', t6, src, cfg, wr,
                               desc)
                ctx.count('parse_fs_reads')
            t5 = ctx.biom.Table.from_hdf5(f, axis='observation')
            compare_loaded(ctx, 'from_hdf5-observation-view', t5, src, cfg,
                           wr, desc)
            ctx.count('loader_from_hdf5_observation_view')
        if index % 4 == 0:
            # the same file must also satisfy the format (C04's oracle)
            _hdf5.check_conformance(ctx, path, src, desc, sig='C01/C04',
                                    custom=cfg.get('custom_category'))
    finally:
        if os.path.exists(path):
            os.remove(path)
    allids = src.obs_ids + src.samp_ids
    if any(ord(c) > 127 for i in allids for c in i):
        ctx.count('nonascii_ids')
    cats = [k for md in (src.obs_md, src.samp_md) for e in md for k in e]
    if any('/' in i for i in allids + cats):
        ctx.count('slash_in_ids_or_categories')
    nt = src.D.any() and (len(src.obs_ids) >= 2 or len(src.samp_ids) >= 2 or
                          any(src.obs_md) or any(src.samp_md) or
                          any(ord(c) > 127 or c == '/' for i in allids
                              for c in i))
    ctx.case(desc, bool(nt))
