"""C14 -- subsetting while reading equals reading everything then filtering.

Monitors: reference = whole-file load -> dense filter (-> drop empty other
axis where documented); strict JSON parse of the slicer output; agreement of
the slicer across serialisations of the same document; refusal of unknown
ids (fault injection on the request).
"""
import itertools
import json
import os

import h5py
import numpy as np

from vm import gen, snap, jsonspec
from vm.ctx import Violation
from vm.checks.c08 import expected_filter
from vm.checks.c03 import id_ok

ID = 'C14'
TITLE = 'subset while reading == read then filter'
LEVEL = 'exploration'
RULE = ('library-written HDF5 and JSON files of generated C01-domain tables '
        '(axes up to 12 ids) x axis x {from_hdf5(ids), from_hdf5(ids, '
        'subset_with_metadata=False), parse_table(json, ids), biom '
        'subset-table on HDF5 and on JSON text in 6 serialisations}; every '
        'non-empty subset for axes <=4 ids, random subsets beyond, ids in '
        'random order; plus requests with an unknown id (incl. a known id '
        'plus a suffix). Non-trivial: proper non-empty subset leaving >=1 '
        'other-axis vector all-zero, or a non-native serialisation, or an '
        'unknown id; distinct = distinct (table, variant, axis, subset)')
ASSUMPTIONS = [
    'requested id lists contain no duplicates',
    'for the command, ids are expressible in the one-id-per-line file (no '
    'edge whitespace / tab / newline / leading "#")',
    'only json.dumps-style serialisations (compact, default, indent 1/2/4) '
    'and the writer-native text are used; duplicate keys in the slicer '
    'output are not treated as malformed (RFC 8259 allows them)',
    'parse_table(json, ids) is not required to refuse unknown ids',
]
ANCHORS = ['Table.from_hdf5', 'parse_biom_table', 'direct_parse_key', 'direct_slice_data', '_direct_slice_data_sparse_obs', '_direct_slice_data_sparse_samp', 'get_axis_indices', '_subset_table']
REQUIRED = ['ids_files_with_crlf_line_ends', 'list_category_with_null_entries', 'hdf5_files_with_stored_zeros', 'empty_request_answered', 'hdf5_default', 'hdf5_no_metadata', 'json_parse_table',
            'cli_hdf5', 'cli_json', 'cli_json_serialisations_agree',
            'unknown_refused_hdf5', 'unknown_refused_hdf5_nomd',
            'unknown_refused_cli', 'other_axis_vectors_dropped',
            'long_axis_cases', 'exhaustive_subset_cases']


def plan(tier):
    n = 1600 if tier == 'quick' else 40000
    return {'cases': n, 'shards': 16, 'min_nontrivial': 300,
            'timeout': 900 if tier == 'quick' else 3600}


def drop_empty_other(spec, axis):
    inv = 'sample' if axis == 'observation' else 'observation'
    ids = spec.ids(inv)
    if inv == 'sample':
        keep = [i for k, i in enumerate(ids) if np.any(spec.D[:, k])]
    else:
        keep = [i for k, i in enumerate(ids) if np.any(spec.D[k, :])]
    return expected_filter(spec, keep, inv, False), len(keep) < len(ids)


def inject_stored_zeros(path, r):
    """Rewrites both matrix views of a BIOM 2.1 file so that a few cells
    whose value is zero are stored explicitly (0.0 in `data`)."""
    import scipy.sparse as sp
    with h5py.File(path, 'r+') as f:
        shape = tuple(int(x) for x in f.attrs['shape'])
        if not shape[0] or not shape[1]:
            return False
        g = f['observation/matrix']
        M = sp.csr_matrix((g['data'][:], g['indices'][:], g['indptr'][:]),
                          shape=shape)
        D = M.toarray()
        zr, zc = np.nonzero(D == 0)
        if not len(zr):
            return False
        pick = r.sample(range(len(zr)), min(len(zr), r.randint(1, 4)))
        coo = M.tocoo()
        rows = list(coo.row) + [int(zr[q]) for q in pick]
        cols = list(coo.col) + [int(zc[q]) for q in pick]
        vals = list(coo.data) + [0.0] * len(pick)
        full = sp.coo_matrix((vals, (rows, cols)), shape=shape)
        for grp, mat in (('observation/matrix', full.tocsr()),
                         ('sample/matrix', full.tocsc())):
            mat.sort_indices()
            for nm, arr, dt in (('data', mat.data, 'float64'),
                                ('indices', mat.indices, 'int32'),
                                ('indptr', mat.indptr, 'int32')):
                del f[grp][nm]
                f[grp].create_dataset(nm, data=np.asarray(arr, dtype=dt))
    return True


def serialisations(r, native):
    doc = json.loads(native)
    # the same table with its sparse entries listed in another order, and
    # with the top-level fields in another order (JSON prescribes neither)
    colmajor = dict(doc)
    shuffled = dict(doc)
    if doc.get('matrix_type') == 'sparse':
        colmajor['data'] = sorted(doc['data'], key=lambda e: (e[1], e[0]))
        sh = list(doc['data'])
        r.shuffle(sh)
        shuffled['data'] = sh
    items = list(doc.items())
    r.shuffle(items)
    return {'native': native,
            'entries-column-major': json.dumps(colmajor),
            'entries-shuffled': json.dumps(shuffled, indent=1),
            'fields-reordered': json.dumps(dict(items)),
            'default': json.dumps(doc),
            'compact': json.dumps(doc, separators=(',', ':')),
            'indent1': json.dumps(doc, indent=1),
            'indent2': json.dumps(doc, indent=2),
            'indent-tab': json.dumps(doc, indent='\t'),
            'indent2-crlf': json.dumps(doc, indent=2).replace('\n', '\r\n'),
            'spaced-wide': json.dumps(doc, separators=(' ,  ', ' :  ')),
            'indent4-unicode': json.dumps(doc, indent=4,
                                          ensure_ascii=False)}


def _cli(args):
    from click.testing import CliRunner
    from biom.cli import cli
    return CliRunner().invoke(cli, args)


def subsets_for(r, ids, exhaustive):
    if exhaustive:
        out = [[]]        # the request that names nothing
        for k in range(1, len(ids) + 1):
            for c in itertools.combinations(ids, k):
                c = list(c)
                r.shuffle(c)
                out.append(c)
        return out
    out = [[]] if r.random() < .3 else []
    for _ in range(4):
        c = r.sample(ids, r.randint(1, len(ids)))
        out.append(c)
    if len(ids) >= 9:
        # positions that wrap small hash tables (set iteration order)
        for pos in ([1, 8], [1, 8, 9], [3, 8, 11], [0, 8], [7, 9, 2]):
            c = [ids[p] for p in pos if p < len(ids)]
            if len(c) >= 2:
                out.append(c)
    return out


def run_case(ctx, index):
    r = ctx.rng(index)
    biom = ctx.biom
    big = index % 4 == 0
    spec = gen.gen_spec(r, max_n=12 if big else 5, max_m=12 if big else 5,
                        allow_empty_text=True,
                        id_classes=['reserved'] if index % 10 in (3, 4)
                        and r.random() < .5 else None)
    # a list-valued category may be unknown (None) for some ids, also for
    # all the ids a request names
    for md_ in (spec.obs_md, spec.samp_md):
        if md_ and len(md_) > 1 and r.random() < .25:
            for k_ in [k_ for k_, v_ in md_[0].items()
                       if isinstance(v_, list)]:
                for q in r.sample(range(len(md_)), r.randint(1,
                                                             len(md_) - 1)):
                    md_[q][k_] = None
                ctx.count('list_category_with_null_entries')
    variant = ['hdf5', 'hdf5-nomd', 'json', 'cli-hdf5', 'cli-json'][index % 5]
    axis = r.choice(['sample', 'observation'])
    ids = spec.ids(axis)
    if variant.startswith('cli') and not all(id_ok(i) for i in
                                             spec.obs_ids + spec.samp_ids):
        variant = 'hdf5' if variant == 'cli-hdf5' else 'json'
    if len(ids) >= 9:
        ctx.count('long_axis_cases')
    exhaustive = len(ids) <= 4
    if exhaustive:
        ctx.count('exhaustive_subset_cases')
    spec.table_id = r.choice([None, 'plain', 'my, table {x', 'a "q" ] id'])
    t = gen.apply_layout(biom, spec, r.choice(gen.LAYOUTS), r)
    gby = r.choice(['vm', 'gen, "by" ]', 'BIOM-Format 2.1'])
    desc0 = {'table': spec.describe(), 'variant': variant, 'axis': axis,
             'generated_by': gby}
    ctx.cls('variant', variant)
    files = []
    h5p = ctx.path('c14_%d.biom' % index)
    jsp = ctx.path('c14_%d.json' % index)
    idp = ctx.path('c14_%d.ids' % index)
    outp = ctx.path('c14_%d.out' % index)
    files = [h5p, jsp, idp, outp]
    native = None
    try:
        if variant in ('hdf5', 'hdf5-nomd', 'cli-hdf5'):
            with h5py.File(h5p, 'w') as f:
                t.to_hdf5(f, gby, compress=r.random() < .5)
            if r.random() < .3 and inject_stored_zeros(h5p, r):
                # a file from another writer may store zeros explicitly; they
                # are still zeros
                ctx.count('hdf5_files_with_stored_zeros')
                desc0['stored_zeros_injected'] = True
            whole = snap.snap(biom.load_table(h5p))
        else:
            native = t.to_json(gby)
            sers = serialisations(r, native)
            whole = snap.snap(biom.Table.from_json(json.loads(native)))
        wspec = gen.Spec(whole.obs_ids, whole.samp_ids, whole.D,
                         whole.obs_md, whole.samp_md, whole.type)
        nontrivial_any = False
        for sub in subsets_for(r, ids, exhaustive):
            try:
                desc = dict(desc0, ids=sub)
                filt = expected_filter(wspec, sub, axis, False)
                dropped_exp, did_drop = drop_empty_other(filt, axis)
                proper = len(sub) < len(ids)
                if variant == 'hdf5':
                    import pandas as pd
                    cont = r.choice([list, list, tuple,
                                     lambda x: np.array(x, dtype=object),
                                     lambda x: pd.Index(x, dtype=object)]) \
                        if sub else list
                    with h5py.File(h5p, 'r') as f:
                        res = biom.Table.from_hdf5(f, ids=cont(sub),
                                                   axis=axis)
                    _cmp(res, dropped_exp, 'C14/hdf5-subset', desc)
                    ctx.count('hdf5_default')
                    if did_drop:
                        ctx.count('other_axis_vectors_dropped')
                    nt = proper and did_drop
                elif variant == 'hdf5-nomd':
                    with h5py.File(h5p, 'r') as f:
                        res = biom.Table.from_hdf5(f, ids=list(sub), axis=axis,
                                                   subset_with_metadata=False)
                    e = filt.copy()
                    e.obs_md = e.samp_md = None
                    e.type = None
                    _cmp(res, e, 'C14/hdf5-nomd-subset', desc)
                    ctx.count('hdf5_no_metadata')
                    nt = proper
                elif variant == 'json':
                    how = r.choice(['text', 'handle', 'lines'])
                    tx = sers[r.choice(sorted(sers))]
                    if how == 'text':
                        cont = r.choice([list, tuple, np.array, frozenset])
                        res = biom.parse_table(tx, ids=cont(sub), axis=axis)
                    elif how == 'lines':
                        res = biom.parse_table(tx.splitlines(True), ids=set(sub),
                                               axis=axis)
                    else:
                        with open(jsp, 'w', encoding='utf-8', newline='') as f:
                            f.write(tx)
                        with open(jsp, encoding='utf-8') as f:
                            res = biom.parse_table(f, ids=list(sub), axis=axis)
                    _cmp(res, dropped_exp, 'C14/json-parse-subset', desc)
                    ctx.count('json_parse_table')
                    if did_drop:
                        ctx.count('other_axis_vectors_dropped')
                    nt = proper and did_drop
                elif variant == 'cli-hdf5':
                    with open(idp, 'w', encoding='utf-8', newline='') as f:
                        eol = '\n'
                        if index % 3 == 1 and not any('\r' in i
                                                      for i in sub):
                            eol = '\r\n'    # as another platform writes it
                            ctx.count('ids_files_with_crlf_line_ends')
                        f.write('#comment line' + eol + eol.join(sub) + eol)
                    if os.path.exists(outp):
                        os.remove(outp)
                    rr = _cli(['subset-table', '-i', h5p, '-a', axis, '-s', idp,
                               '-o', outp])
                    if rr.exit_code != 0 and not sub:
                        raise RuntimeError('refused')
                    if rr.exit_code != 0:
                        raise Violation('C14/cli-hdf5-failed', 'exit %s %r %r; '
                                        'case=%r' % (rr.exit_code,
                                                     rr.output[-300:],
                                                     rr.exception, desc))
                    res = biom.load_table(outp)
                    _cmp(res, dropped_exp, 'C14/cli-hdf5-subset', desc)
                    ctx.count('cli_hdf5')
                    nt = proper and did_drop
                else:
                    with open(idp, 'w', encoding='utf-8') as f:
                        f.write('\n'.join('%s\tignored column' % i
                                          for i in sub) + '\n')
                    outs = {}
                    for nm, tx in sers.items():
                        with open(jsp, 'w', encoding='utf-8', newline='') as f:
                            f.write(tx)
                        if os.path.exists(outp):
                            os.remove(outp)
                        rr = _cli(['subset-table', '-j', jsp, '-a', axis, '-s',
                                   idp, '-o', outp])
                        if rr.exit_code != 0 and not sub:
                            raise RuntimeError('refused')
                        if rr.exit_code != 0:
                            raise Violation('C14/cli-json-failed/' + nm,
                                            'exit %s %r %r; case=%r' %
                                            (rr.exit_code, rr.output[-300:],
                                             rr.exception, desc))
                        with open(outp, encoding='utf-8') as f:
                            out = f.read()
                        try:
                            doc = jsonspec.loads_strict(out)
                        except jsonspec.NotStrictJSON as e:
                            raise Violation('C14/cli-json-malformed/' + nm,
                                            '%s; output=%r; case=%r' %
                                            (e, out[:400], desc))
                        outs[nm] = doc
                        res = biom.Table.from_json(doc)
                        _cmp(res, filt, 'C14/cli-json-subset/' + nm, desc)
                        ctx.count('cli_json')
                    def canon(d):
                        # the order in which the sparse entries (and the
                        # fields) are listed is not content
                        d = dict(d)
                        if isinstance(d.get('data'), list) and \
                                d.get('matrix_type') == 'sparse':
                            d['data'] = sorted(d['data'],
                                               key=lambda e: (e[0], e[1]))
                        return d
                    ref = canon(outs['native'])
                    for nm, doc in outs.items():
                        if canon(doc) != ref:
                            raise Violation('C14/cli-json-serialisation-'
                                            'dependent', 'output for %s differs '
                                            'from the native one; case=%r' %
                                            (nm, desc))
                    ctx.count('cli_json_serialisations_agree')
                    nt = True
            except Violation:
                raise
            except Exception:
                if sub:
                    raise
                # a request naming no id at all may be refused
                ctx.count('empty_request_refused')
                continue
            if not sub:
                ctx.count('empty_request_answered')
            nontrivial_any = nontrivial_any or nt
            ctx.case(desc, bool(nt))
        # ----------------------------------------------- unknown id
        longest = max(ids, key=len)
        bogus = r.choice(['no_such_id', longest + 'X', longest + '0',
                          ids[0] + '_', 'Z' + ids[-1]])
        while bogus in ids:
            bogus += '~'
        known = [i for i in r.sample(ids, r.randint(0, len(ids)))
                 if not (i == longest and r.random() < .7)]
        req = known + [bogus]
        r.shuffle(req)
        desc = dict(desc0, ids=req, unknown=bogus)
        if variant in ('hdf5', 'hdf5-nomd'):
            # the request may come in any id container
            kind = r.choice(['list', 'list', 'tuple', 'objarray',
                             'pandas-index', 'pandas-series', 'strarray'])
            desc['request_container'] = kind
            import pandas as pd
            req = {'list': list, 'tuple': tuple,
                   'objarray': lambda x: np.array(x, dtype=object),
                   'strarray': lambda x: np.array(x, dtype=str),
                   'pandas-index': lambda x: pd.Index(x, dtype=object),
                   'pandas-series': lambda x: pd.Series(x, dtype=object)
                   }[kind](req)
            ctx.count('unknown_id_request_containers')
            try:
                with h5py.File(h5p, 'r') as f:
                    biom.Table.from_hdf5(
                        f, ids=req, axis=axis,
                        subset_with_metadata=(variant == 'hdf5'))
            except Exception:
                ctx.count('unknown_refused_hdf5' if variant == 'hdf5' else
                          'unknown_refused_hdf5_nomd')
            else:
                raise Violation('C14/unknown-id-accepted/' + variant,
                                'request %r names %r which is not in the '
                                'file; case=%r' % (req, bogus, desc))
            ctx.case(desc, True)
        elif variant.startswith('cli') and id_ok(bogus):
            with open(idp, 'w', encoding='utf-8') as f:
                f.write('\n'.join(req) + '\n')
            if variant == 'cli-hdf5':
                args = ['subset-table', '-i', h5p]
            else:
                with open(jsp, 'w', encoding='utf-8', newline='') as f:
                    f.write(sers[r.choice(sorted(sers))])
                args = ['subset-table', '-j', jsp]
            rr = _cli(args + ['-a', axis, '-s', idp, '-o', outp])
            if rr.exit_code == 0:
                raise Violation('C14/unknown-id-accepted/' + variant,
                                'command exited 0 for a request naming %r; '
                                'case=%r' % (bogus, desc))
            ctx.count('unknown_refused_cli')
            ctx.case(desc, True)
    finally:
        for p in files:
            if os.path.exists(p):
                os.remove(p)


def _cmp(res, exp, sig, desc):
    d = snap.diff(snap.snap(res), snap.snap_spec(exp))
    if d:
        raise Violation(sig, '%s; case=%r' % ('; '.join(d), desc))


def stress(ctx):
    """Scale: requests naming more than 256 ids on a 300-id axis."""
    biom = ctx.biom
    r = ctx.rng('stress')
    for axis in ('sample', 'observation'):
        n = 300
        ids = ['id%03d' % i for i in range(n)]
        other = ['a', 'b', 'c']
        rng = np.random.default_rng(r.randrange(2 ** 32))
        V = rng.integers(0, 4, size=(n, 3)).astype(float)
        V[:, 2] = 0
        V[7, 2] = 5          # an other-axis vector that empties for most picks
        D = V if axis == 'observation' else V.T
        spec = gen.Spec(ids if axis == 'observation' else other,
                        other if axis == 'observation' else ids, D,
                        None, None, 'OTU table')
        t = gen.build(biom, spec, 'dense')
        h5p, jsp = ctx.path('c14s.biom'), ctx.path('c14s.json')
        idp, outp = ctx.path('c14s.ids'), ctx.path('c14s.out')
        try:
            with h5py.File(h5p, 'w') as f:
                t.to_hdf5(f, 'scale')
            native = t.to_json('scale')
            for k in (5, 257, 280):
                sub = r.sample([i for i in ids if i != 'id007'], k)
                desc = {'scale': '%d of %d ids on %s' % (k, n, axis)}
                filt = expected_filter(spec, sub, axis, False)
                dropped, _ = drop_empty_other(filt, axis)
                with h5py.File(h5p, 'r') as f:
                    _cmp(biom.Table.from_hdf5(f, ids=list(sub), axis=axis),
                         dropped, 'C14/hdf5-subset', desc)
                    e = filt.copy()
                    e.type = None
                    _cmp(biom.Table.from_hdf5(f, ids=list(sub), axis=axis,
                                              subset_with_metadata=False),
                         e, 'C14/hdf5-nomd-subset', desc)
                _cmp(biom.parse_table(native, ids=list(sub), axis=axis),
                     dropped, 'C14/json-parse-subset', desc)
                with open(idp, 'w') as f:
                    f.write('\n'.join(sub) + '\n')
                for nm, tx in (('native', native),
                               ('indent2', json.dumps(json.loads(native),
                                                      indent=2))):
                    with open(jsp, 'w') as f:
                        f.write(tx)
                    rr = _cli(['subset-table', '-j', jsp, '-a', axis, '-s',
                               idp, '-o', outp])
                    if rr.exit_code != 0:
                        raise Violation('C14/cli-json-failed/' + nm,
                                        'scale: exit %s %r %r; %r' %
                                        (rr.exit_code, rr.output[-200:],
                                         rr.exception, desc))
                    with open(outp) as f:
                        doc = jsonspec.loads_strict(f.read())
                    _cmp(biom.Table.from_json(doc), filt,
                         'C14/cli-json-subset/' + nm, desc)
                ctx.count('scale_cases')
                ctx.case(desc, True)
        finally:
            for p in (h5p, jsp, idp, outp):
                if os.path.exists(p):
                    os.remove(p)
