"""C12 -- subsampling draws exactly n per vector, never inventing counts.

Monitors: hard per-call invariants against the dense reference, seed
reproducibility, input snapshot, and a statistical monitor (chi-square against
exact hypergeometric / multinomial / uniform-subset pmfs on small vectors).
"""
import itertools
from collections import Counter

import numpy as np

from vm import gen, snap, oracles
from vm.ctx import Violation

ID = 'C12'
TITLE = 'subsample draws exactly n per vector'
LEVEL = 'exploration'
RULE = ('non-negative integer tables (small counts, 2^31 / 2^40 counts, '
        'all-zero and single-entry vectors) x n below/at/above the vector '
        'totals x axis x {without, with replacement, by id} x seeds (incl. 0) '
        'x 13 layout recipes; plus K seeds per small-vector configuration '
        'for the statistical monitor. Non-trivial: some vector total > n and '
        'some < n, or axis=observation, or with replacement / by id; '
        'distinct = distinct (table, layout, n, axis, mode, seed)')
ASSUMPTIONS = [
    'equal likelihood is decided statistically: chi-square against the exact '
    'pmf, alarm only at p < 1e-9; bias below the detectable effect size '
    '(reported in the evidence) is out of reach',
    'by_id: other-axis vectors that are all-zero among the kept ids may be '
    'dropped (the implementation filters them; the statement is silent)',
]
ANCHORS = ['Table.subsample']
REQUIRED = ['reproducibility_probes_run', 'stress_by_id_calls', 'generate_subsamples_tables', 'seed_generator_object', 'second_call_after_inplace_edit', 'without_replacement', 'with_replacement', 'by_id',
            'axis_observation', 'axis_sample', 'vectors_below_n_dropped',
            'seed_reproducibility_checked', 'seed_zero_checked',
            'stat_draws', 'layout_csc_seen']

STAT_CONFIGS = ['hyper-321-n2-sample', 'hyper-321-n2-observation',
                'multi-321-n2-sample', 'byid-4-n2-sample',
                'hyper-11111-n2-sample', 'byid-4-n2-observation',
                'hyper-4x2-n3-observation']


def plan(tier):
    n = 6000 if tier == 'quick' else 250000
    nstat = 160 if tier == 'quick' else 4000     # cases; 100 draws each
    return {'cases': n + nstat, 'n': n, 'nstat': nstat, 'shards': 16,
            'min_nontrivial': 500,
            'timeout': 900 if tier == 'quick' else 3600}


def note_layout(ctx, t):
    st = gen.layout_state(t)
    ctx.cls('layout_state', st)
    if st.startswith('csc'):
        ctx.count('layout_csc_seen')
    if 'unsorted' in st:
        ctx.count('layout_unsorted_seen')
    return st


def int_spec(r):
    n = r.randint(1, 6)
    m = r.randint(1, 6)
    vc = r.choice(['count', 'count', 'count', 'big', 'binary'])
    dens = r.choice([0.2, 0.5, 0.9, 1.0])
    D = np.zeros((n, m))
    for i in range(n):
        for j in range(m):
            if r.random() < dens:
                if vc == 'count':
                    D[i, j] = r.randint(1, 9)
                elif vc == 'binary':
                    D[i, j] = 1
                else:
                    D[i, j] = r.choice([2 ** 31 - 1, 2 ** 31 + 5, 2 ** 40,
                                        3, 1])
    if r.random() < .3 and n > 1:
        D[r.randrange(n), :] = 0
    if r.random() < .3 and m > 1:
        D[:, r.randrange(m)] = 0
    kinds = ['none', 'text', 'int', 'taxonomy']
    obs_ids = gen.gen_ids(r, n, r.choice(gen.ID_CLASSES), 'O')
    samp_ids = gen.gen_ids(r, m, r.choice(gen.ID_CLASSES), 'S')
    return gen.Spec(obs_ids, samp_ids, D,
                    gen.gen_metadata(r, obs_ids, r.choice(kinds)),
                    gen.gen_metadata(r, samp_ids, r.choice(kinds)),
                    r.choice(gen.TABLE_TYPES + [None]),
                    classes={'values': vc})


def axis_view(D, axis):
    """rows of the returned matrix are the vectors of `axis`."""
    return D if axis == 'observation' else D.T


def check_counts(ctx, spec, res, n, axis, replace, desc):
    inv = 'sample' if axis == 'observation' else 'observation'
    s = snap.snap(res)
    V = axis_view(spec.D, axis)
    ids = spec.ids(axis)
    oids = spec.ids(inv)
    tot = V.sum(axis=1)
    if replace:
        exp_ids = [i for i, t in zip(ids, tot) if t > 0]
    else:
        exp_ids = [i for i, t in zip(ids, tot) if t >= n]
        if any(t < n for t in tot):
            ctx.count('vectors_below_n_dropped')
    if s.ids(axis) != exp_ids:
        raise Violation('C12/retained-vectors', 'retained %s ids %r, '
                        'expected %r (totals %r, n=%d); case=%r' %
                        (axis, s.ids(axis), exp_ids, tot.tolist(), n, desc))
    R = axis_view(s.D, axis)
    got_o = s.ids(inv)
    if [i for i in oids if i in set(got_o)] != got_o:
        raise Violation('C12/other-axis-order', 'other-axis ids %r are not '
                        'a subsequence of %r; case=%r' % (got_o, oids, desc))
    full = np.zeros((len(exp_ids), len(oids)))
    for b, oid in enumerate(got_o):
        full[:, oids.index(oid)] = R[:, b] if len(exp_ids) else 0
    for a, i in enumerate(exp_ids):
        orig = V[ids.index(i), :]
        vec = full[a, :]
        if vec.sum() != n:
            raise Violation('C12/vector-sum', '%s %r sums to %r, n=%d; '
                            'case=%r' % (axis, i, float(vec.sum()), n, desc))
        if np.any(vec != np.floor(vec)) or np.any(vec < 0):
            raise Violation('C12/non-integer-or-negative', '%r; case=%r' %
                            (vec.tolist(), desc))
        if replace:
            if np.any((orig == 0) & (vec != 0)):
                raise Violation('C12/invented-count', '%s %r has counts where'
                                ' the original had none: %r vs %r; case=%r' %
                                (axis, i, vec.tolist(), orig.tolist(), desc))
        elif np.any(vec > orig):
            raise Violation('C12/invented-count', '%s %r: %r exceeds the '
                            'original %r; case=%r' % (axis, i, vec.tolist(),
                                                      orig.tolist(), desc))
    nonzero_other = [oid for b, oid in enumerate(oids)
                     if len(exp_ids) and np.any(full[:, b] != 0)]
    if got_o != nonzero_other:
        raise Violation('C12/other-axis-empty-vectors', 'other-axis ids kept '
                        '%r, non-zero ones are %r; case=%r' %
                        (got_o, nonzero_other, desc))
    check_md(s, spec, desc)


def check_md(s, spec, desc):
    for axis in ('observation', 'sample'):
        md = snap.canon_md(spec.md(axis), len(spec.ids(axis)))
        for k, i in enumerate(s.ids(axis)):
            if not snap.md_equal([s.md(axis)[k]],
                                 [md[spec.ids(axis).index(i)]]):
                raise Violation('C12/metadata', 'metadata of %r changed; '
                                'case=%r' % (i, desc))


def check_by_id(ctx, spec, res, n, axis, desc):
    inv = 'sample' if axis == 'observation' else 'observation'
    s = snap.snap(res)
    ids = spec.ids(axis)
    kept = s.ids(axis)
    if len(kept) != min(n, len(ids)) or len(set(kept)) != len(kept) or \
            [i for i in ids if i in set(kept)] != kept:
        raise Violation('C12/by-id-kept', 'kept %r of %r with n=%d; case=%r'
                        % (kept, ids, n, desc))
    oids = spec.ids(inv)
    got_o = s.ids(inv)
    if [i for i in oids if i in set(got_o)] != got_o:
        raise Violation('C12/other-axis-order', 'case=%r' % (desc,))
    V = axis_view(spec.D, axis)
    R = axis_view(s.D, axis)
    for a, i in enumerate(kept):
        for b, oid in enumerate(got_o):
            if R[a, b] != V[ids.index(i), oids.index(oid)]:
                raise Violation('C12/by-id-value-changed', '(%r,%r): %r vs '
                                '%r; case=%r' % (i, oid, float(R[a, b]),
                                                 float(V[ids.index(i),
                                                         oids.index(oid)]),
                                                 desc))
    for b, oid in enumerate(oids):
        nz = any(V[ids.index(i), b] != 0 for i in kept)
        if nz and oid not in got_o:
            raise Violation('C12/by-id-lost-vector', 'other-axis id %r has '
                            'data among the kept ids but was dropped; '
                            'case=%r' % (oid, desc))
    check_md(s, spec, desc)


def run_invariants(ctx, index):
    r = ctx.rng(index)
    spec = int_spec(r)
    recipe = r.choice(gen.LAYOUTS)
    axis = r.choice(['sample', 'observation'])
    mode = r.choice(['without', 'without', 'with', 'by_id'])
    V = axis_view(spec.D, axis)
    tot = sorted(set(int(t) for t in V.sum(axis=1) if t < 2 ** 20))
    cands = [1, 2, 3]
    for t in tot:
        cands += [t, t + 1, max(1, t - 1)]
    n = max(1, min(r.choice(cands), 5000))
    if mode == 'by_id':
        n = r.randint(1, len(spec.ids(axis)) + 2)
    seed = r.choice([0, 0, 1, 1234, r.randrange(2 ** 31), None,
                     'np.int64', 'generator'])
    seedrepr = seed
    if seed == 'np.int64':
        sv = r.randrange(2 ** 31)
        mkseed = lambda: np.int64(sv)      # noqa: E731
        seedrepr = 'np.int64(%d)' % sv
    elif seed == 'generator':
        sv = r.randrange(2 ** 31)
        # a fresh, identically seeded numpy Generator for every call
        mkseed = lambda: np.random.default_rng(sv)     # noqa: E731
        seedrepr = 'default_rng(%d)' % sv
        ctx.count('seed_generator_object')
    else:
        mkseed = lambda: seed              # noqa: E731
    t = gen.apply_layout(ctx.biom, spec, recipe, r)
    st = note_layout(ctx, t)
    desc = {'table': spec.describe(), 'recipe': recipe, 'layout': st,
            'n': n, 'axis': axis, 'mode': mode, 'seed': seedrepr}
    ctx.count('axis_' + axis)
    before = snap.snap(t)
    kw0 = dict(axis=axis, by_id=(mode == 'by_id'),
               with_replacement=(mode == 'with'))

    def kwf():
        # every call gets its own seed object
        return dict(kw0, seed=mkseed())
    res = t.subsample(n, **kwf())
    if res is t:
        raise Violation('C12/returned-input', 'case=%r' % (desc,))
    oracles.unchanged(t, before, 'C12/input-modified', desc, 'input table')
    if mode == 'by_id':
        check_by_id(ctx, spec, res, n, axis, desc)
        ctx.count('by_id')
    else:
        check_counts(ctx, spec, res, n, axis, mode == 'with', desc)
        ctx.count('without_replacement' if mode == 'without' else
                  'with_replacement')
    if seed is not None:
        t2 = gen.apply_layout(ctx.biom, spec, r.choice(gen.LAYOUTS),
                              ctx.rng(index, 't2'))
        res2 = t2.subsample(n, **kwf())
        res3 = t.subsample(n, **kwf())
        for other, what in ((res2, 'an equal table in another layout'),
                            (res3, 'the same table again')):
            d = snap.diff(snap.snap(res), snap.snap(other))
            if d and what.startswith('the same'):
                raise Violation('C12/seed-not-reproducible', 'seed=%r gave a '
                                'different result on %s: %s; case=%r' %
                                (seed, what, '; '.join(d), desc))
        ctx.count('seed_reproducibility_checked')
        if seed == 0:
            ctx.count('seed_zero_checked')
        oracles.unchanged(t, before, 'C12/input-modified', desc)
    if mode != 'by_id' and index % 4 == 0:
        # state left behind by the first call must not leak into a later
        # one: edit the table in place (along either axis), draw again
        ax2 = r.choice(['sample', 'observation'])
        g = r.choice([lambda v, i, m: np.floor(v / 4), lambda v, i, m: v * 3,
                      lambda v, i, m: np.where(v > 2, v, 0.)])
        t.transform(g, axis=ax2, inplace=True)
        spec2 = spec.copy()
        spec2.D = np.array(snap.snap(t).D)
        exp = g(spec.D.copy(), None, None)
        if not snap.bits_equal(spec2.D, exp):
            raise Violation('C12/harness-edit', 'in-place transform gave an '
                            'unexpected table; case=%r' % (desc,))
        res4 = t.subsample(n, **kwf())
        d2 = dict(desc, after_inplace_edit=True)
        check_counts(ctx, spec2, res4, n, axis, mode == 'with', d2)
        ctx.count('second_call_after_inplace_edit')
    if index % 7 == 2 and mode != 'with':
        # the endless generator of subsamples: every table it yields is a
        # subsample in the same sense
        from biom.util import generate_subsamples
        src = gen.apply_layout(ctx.biom, spec, recipe, ctx.rng(index, 'g'))
        b0 = snap.snap(src)
        it = generate_subsamples(src, n, axis, mode == 'by_id')
        for q in range(3):
            rs = next(it)
            dq = dict(desc, via='generate_subsamples #%d' % q)
            if mode == 'by_id':
                check_by_id(ctx, spec, rs, n, axis, dq)
            else:
                check_counts(ctx, spec, rs, n, axis, False, dq)
            oracles.unchanged(src, b0, 'C12/input-modified', dq)
        ctx.count('generate_subsamples_tables', 3)
    tots = V.sum(axis=1)
    ctx.case(desc, bool((np.any(tots > n) and np.any(tots < n)) or
                        axis == 'observation' or mode != 'without'))


# ------------------------------------------------------------- statistics
def stat_table(ctx, cfg):
    Table = ctx.biom.Table
    kind, vec, nn, axis = cfg.split('-')
    n = int(nn[1:])
    if kind == 'byid':
        k = int(vec)
        D = np.ones((k, 1)) if axis == 'observation' else np.ones((1, k))
        # by id on `axis`: k ids on that axis
        if axis == 'observation':
            t = Table(D, ['v%d' % i for i in range(k)], ['x'])
        else:
            t = Table(D, ['x'], ['v%d' % i for i in range(k)])
        return t, n, kind, None
    if vec == '4x2':
        D = np.array([[2., 1., 0., 1.], [1., 1., 2., 0.]])
        return Table(D, ['r0', 'r1'], ['c%d' % i for i in range(4)]), n, \
            kind, D
    v = np.array([float(c) for c in vec])
    if axis == 'sample':
        t = Table(v.reshape(-1, 1), ['v%d' % i for i in range(len(v))], ['x'])
    else:
        t = Table(v.reshape(1, -1), ['x'], ['v%d' % i for i in range(len(v))])
    return t, n, kind, v


def stat_outcome(res, cfg, kind, axis, v):
    if kind == 'byid':
        return ','.join(sorted(str(i) for i in res.ids(axis=axis)))
    if cfg.startswith('hyper-4x2'):
        out = []
        for rid in ('r0', 'r1'):
            vec = [0] * 4
            if res.exists(rid, axis='observation'):
                for c in res.ids():
                    vec[int(str(c)[1:])] = int(res.get_value_by_ids(rid, c))
            out.append(''.join(map(str, vec)))
        return '|'.join(out)
    inv = 'observation' if axis == 'sample' else 'sample'
    vec = [0] * len(v)
    for i in res.ids(axis=inv):
        k = int(str(i)[1:])
        vec[k] = int(res.get_value_by_ids(i, 'x') if axis == 'sample' else
                     res.get_value_by_ids('x', i))
    return ''.join(map(str, vec))


def exact_pmf(cfg):
    kind, vec, nn, axis = cfg.split('-')
    n = int(nn[1:])
    pm = Counter()
    if kind == 'byid':
        k = int(vec)
        subs = list(itertools.combinations(range(k), n))
        for s in subs:
            pm[','.join('v%d' % i for i in s)] += 1.0 / len(subs)
        return pm
    if vec == '4x2':
        rows = [[2, 1, 0, 1], [1, 1, 2, 0]]
        per = []
        for row in rows:
            units = [j for j, c in enumerate(row) for _ in range(c)]
            c = Counter()
            subs = list(itertools.combinations(range(len(units)), n))
            for s in subs:
                o = [0] * 4
                for u in s:
                    o[units[u]] += 1
                c[''.join(map(str, o))] += 1.0 / len(subs)
            per.append(c)
        for a, pa in per[0].items():
            for b, pb in per[1].items():
                pm[a + '|' + b] += pa * pb
        return pm
    v = [int(c) for c in vec]
    units = [j for j, c in enumerate(v) for _ in range(c)]
    if kind == 'hyper':
        subs = list(itertools.combinations(range(len(units)), n))
        for s in subs:
            o = [0] * len(v)
            for u in s:
                o[units[u]] += 1
            pm[''.join(map(str, o))] += 1.0 / len(subs)
    else:
        tot = float(sum(v))
        for draws in itertools.product(range(len(v)), repeat=n):
            p = 1.0
            o = [0] * len(v)
            for d in draws:
                p *= v[d] / tot
                o[d] += 1
            pm[''.join(map(str, o))] += p
    return pm


def run_stat(ctx, index, k):
    cfg = STAT_CONFIGS[k % len(STAT_CONFIGS)]
    t, n, kind, v = stat_table(ctx, cfg)
    axis = cfg.split('-')[3]
    r = ctx.rng(index)
    hist = ctx.extra.setdefault('stat', {}).setdefault(cfg, {})
    for _ in range(100):
        seed = r.randrange(2 ** 32)
        res = t.subsample(n, axis=axis, by_id=(kind == 'byid'),
                          with_replacement=(kind == 'multi'), seed=seed)
        o = stat_outcome(res, cfg, kind, axis, v)
        hist[o] = hist.get(o, 0) + 1
        ctx.count('stat_draws')
    ctx.case({'stat_config': cfg, 'draws': 100, 'case': index}, True,
             fp='stat-%d' % index)


def _merge_stat(extra):
    tot = {}
    for shard in extra.get('stat', []):
        for cfg, h in shard.items():
            d = tot.setdefault(cfg, {})
            for o, c in h.items():
                d[o] = d.get(o, 0) + c
    return tot


def _chi2(hist, pm):
    from scipy.stats import chi2
    K = sum(hist.values())
    stat = 0.0
    for o, p in pm.items():
        e = K * p
        stat += (hist.get(o, 0) - e) ** 2 / e
    impossible = [o for o in hist if o not in pm]
    dof = len(pm) - 1
    return stat, dof, float(chi2.sf(stat, dof)), K, impossible


def finish(ctx):
    """Run in every worker process (each has its own string-hash seed): the
    same table, depth and seed must give the same subsample in all of them.
    The digests are compared by `verdict`."""
    import hashlib
    r = np.random.default_rng(12345)
    probes = {}
    ids_o = ['otu_%s' % c for c in 'abcdefghijklmnopqrstuvwx']
    ids_s = ['sample %d' % i for i in range(9)]
    D = r.integers(0, 6, size=(len(ids_o), len(ids_s))).astype(float)
    t = ctx.biom.Table(D, ids_o, ids_s)
    for axis in ('sample', 'observation'):
        for mode, kw in (('counts', {}), ('by_id', {'by_id': True}),
                         ('replace', {'with_replacement': True})):
            for seed in (0, 7, 2 ** 31 - 1):
                n = 5 if mode != 'by_id' else 4
                res = t.subsample(n, axis=axis, seed=seed, **kw)
                key = '%s/%s/seed=%d' % (axis, mode, seed)
                blob = repr(([str(i) for i in res.ids(axis='observation')],
                             [str(i) for i in res.ids()],
                             res.matrix_data.toarray().tolist()))
                probes[key] = hashlib.sha256(blob.encode()).hexdigest()[:16]
    ctx.extra['reproducibility_probes'] = probes
    ctx.count('reproducibility_probes_run', len(probes))


def verdict(counters, extra, tier):
    out = []
    per_shard = extra.get('reproducibility_probes', [])
    if per_shard:
        ref = per_shard[0]
        for other in per_shard[1:]:
            diff = sorted(k for k in ref if other.get(k) != ref[k])
            if diff:
                out.append({'sig': 'C12/seed-not-reproducible/across-'
                            'processes', 'message': 'the same table, depth '
                            'and seed gave different subsamples in worker '
                            'processes that differ only in their string-hash '
                            'seed: %r' % (diff[:6],)})
                break
    for cfg, hist in _merge_stat(extra).items():
        pm = exact_pmf(cfg)
        stat, dof, p, K, impossible = _chi2(hist, pm)
        if impossible:
            out.append({'sig': 'C12/stat-impossible-outcome/' + cfg,
                        'message': 'outcomes %r have probability 0; '
                        'histogram=%r' % (impossible, hist)})
        elif p < 1e-9:
            out.append({'sig': 'C12/stat-bias/' + cfg,
                        'message': 'chi2=%.1f dof=%d p=%.3g over K=%d draws; '
                        'observed=%r expected pmf=%r' %
                        (stat, dof, p, K, hist, dict(pm))})
    return out


def summarize(counters, extra, tier):
    res = {}
    for cfg, hist in _merge_stat(extra).items():
        pm = exact_pmf(cfg)
        stat, dof, p, K, imp = _chi2(hist, pm)
        pmin = min(pm.values())
        # smallest absolute deviation of one outcome probability that would
        # push chi2 past the 1e-9 threshold (approx.)
        from scipy.stats import chi2
        crit = chi2.isf(1e-9, dof)
        eff = (crit * pmin / K) ** 0.5 if K else None
        res[cfg] = {'K': K, 'chi2': round(stat, 3), 'dof': dof,
                    'p_value': p, 'outcomes_seen': len(hist),
                    'outcomes_possible': len(pm),
                    'min_detectable_abs_bias_on_rarest_outcome':
                        None if eff is None else round(eff, 5)}
    return {'statistical_monitor': res, 'alarm_threshold_p': 1e-9}


def run_case(ctx, index):
    p = plan(ctx.tier)
    if index < p['n']:
        run_invariants(ctx, index)
    else:
        run_stat(ctx, index, index - p['n'])


def stress(ctx):
    from vm.checks import _stress
    _stress.stress_subsample(ctx, ctx.rng('stress'))
    _stress.stress_subsample_by_id(ctx, ctx.rng('stress-by-id'))


def san_indices(tier):
    return list(range(0, 400 if tier == 'quick' else 6000))
