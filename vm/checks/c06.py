"""C06 -- reordering, transposing, copying, renaming keep values with ids.

Monitors: tracer tables (every cell / metadata payload unique), reference
model, per-id public queries, tap on sort_f, inverse-operation round trips.
"""
import itertools

import numpy as np

from vm import gen, snap, oracles
from vm.ctx import Violation

ID = 'C06'
TITLE = 'reorder/transpose/copy/rename keep values with ids'
LEVEL = 'exploration'
RULE = ('exhaustive part: all permutations of axes of length 1..4 (33 per '
        'axis) x both axes x 6 layout recipes on tracer tables via '
        'sort_order + inverse; random part: sort/sort_order/align_to/'
        'transpose/copy/update_ids with generated tables, id classes, id '
        'array dtypes and layouts. Non-trivial: the permutation/renaming is '
        'not the identity and the axis has >=2 ids; distinct = distinct '
        '(table, layout, operation, arguments)')
ASSUMPTIONS = [
    'tracer values 1000*i+j+1 make any misplaced value observable',
    'natsort default order is checked only as a permutation plus numeric '
    'order on <prefix><int> ids; with a tapped sort_f the exact order is',
    'transpose is not stated to carry the table type; type is not compared '
    'across transpose',
]
ANCHORS = ['Table.sort_order', 'Table.sort', 'Table.align_to', 'Table.transpose', 'Table.update_ids', 'Table.copy', 'natsort']
REQUIRED = ['id_map_of_another_mapping_type', 'sorter_result_changed_by_caller', 'natural_order_checked', 'natsort_probes', 'natsort_decimal_checked', 'result_metadata_edits', 'sort_order', 'sort', 'align_to', 'transpose', 'copy',
            'update_ids', 'update_ids_refused', 'align_refused',
            'inverse_roundtrips', 'layout_csc_seen', 'layout_unsorted_seen',
            'objdtype_ids']

_RECIPES = ['as-built', 'touch-sample', 'touch-obs', 'sort-unsort-samp',
            'sort-unsort-obs', 'csr-unsorted']
_PERMS = [p for n in range(1, 5) for p in itertools.permutations(range(n))]


def plan(tier):
    exh = len(_PERMS) * 2 * len(_RECIPES) * 2
    nrand = 6000 if tier == 'quick' else 200000
    return {'cases': exh + nrand, 'exh': exh, 'nrand': nrand, 'shards': 16,
            'min_nontrivial': 500,
            'timeout': 900 if tier == 'quick' else 3600}


def permuted(spec, order, axis):
    out = spec.copy()
    ids = spec.ids(axis)
    idx = [ids.index(i) for i in order]
    if axis == 'observation':
        out.obs_ids = list(order)
        out.D = spec.D[idx, :]
        if spec.obs_md is not None:
            out.obs_md = [spec.obs_md[k] for k in idx]
    else:
        out.samp_ids = list(order)
        out.D = spec.D[:, idx]
        if spec.samp_md is not None:
            out.samp_md = [spec.samp_md[k] for k in idx]
    return out


def transposed(spec):
    return gen.Spec(spec.samp_ids, spec.obs_ids, spec.D.T.copy(),
                    spec.samp_md, spec.obs_md, None, spec.table_id)


def note_layout(ctx, t):
    st = gen.layout_state(t)
    ctx.cls('layout_state', st)
    if 'unsorted' in st:
        ctx.count('layout_unsorted_seen')
    if st.startswith('csc'):
        ctx.count('layout_csc_seen')
    return st


def make_table(ctx, spec, recipe, r, objids=False):
    t = gen.apply_layout(ctx.biom, spec, recipe, r)
    if objids:
        # ids held as object arrays (what pandas-built tables carry)
        t = ctx.biom.Table(t.matrix_data, np.array(spec.obs_ids, dtype=object),
                           np.array(spec.samp_ids, dtype=object),
                           t.metadata(axis='observation'), t.metadata(),
                           type=spec.type)
        ctx.count('objdtype_ids')
    return t


def edit_result_md(ctx, res, t, before, desc, what):
    """The result's metadata entries are its own: editing them through the
    public API must not change the table it was derived from."""
    for ax in ('sample', 'observation'):
        md = res.metadata(axis=ax)
        if md is None:
            continue
        ids = list(res.ids(axis=ax))
        keys = sorted({k for e in md for k in e}, key=str)
        res.add_metadata({i: {'__edited__': 1, **({keys[0]: '__over__'} if
                                                  keys else {})}
                          for i in ids}, axis=ax)
        if keys:
            res.del_metadata(keys=[keys[-1]], axis=ax)
    oracles.unchanged(t, before, 'C06/%s-metadata-shared-with-source' % what,
                      desc)
    ctx.count('result_metadata_edits')


def do_sort_order(ctx, t, spec, order, axis, desc, arg_kind='list'):
    before = snap.snap(t)
    arg = {'list': list, 'tuple': tuple,
           'ndarray': lambda o: np.array(o, dtype=str),
           'objarray': lambda o: np.array(o, dtype=object),
           'pandas-index': lambda o: __import__('pandas').Index(
               o, dtype=object)}[arg_kind](order)
    res = t.sort_order(arg, axis=axis)
    ctx.count('sort_order')
    exp = permuted(spec, list(order), axis)
    oracles.check_against_spec(res, exp, 'C06/sort_order', desc)
    oracles.check_by_ids(res, exp, 'C06/sort_order', desc)
    oracles.unchanged(t, before, 'C06/sort_order-modified-receiver', desc)
    back = res.sort_order(list(spec.ids(axis)), axis=axis)
    oracles.check_against_spec(back, spec, 'C06/sort_order-inverse', desc)
    ctx.count('inverse_roundtrips')
    edit_result_md(ctx, res, t, before, desc, 'sort_order')
    return res


def run_exh(ctx, k):
    axis = 'sample' if k % 2 == 0 else 'observation'
    k //= 2
    with_md = k % 2 == 0
    k //= 2
    recipe = _RECIPES[k % len(_RECIPES)]
    perm = _PERMS[k // len(_RECIPES)]
    n = len(perm)
    r = ctx.rng('exh', k)
    other = 3 if n != 3 else 2
    shape = (n, other) if axis == 'observation' else (other, n)
    spec = gen.tracer_spec(r, shape[0], shape[1], with_md=with_md)
    t = make_table(ctx, spec, recipe, r)
    st = note_layout(ctx, t)
    ids = spec.ids(axis)
    order = [ids[p] for p in perm]
    desc = {'table': spec.describe(), 'recipe': recipe, 'layout': st,
            'op': 'sort_order', 'axis': axis, 'order': order}
    do_sort_order(ctx, t, spec, order, axis, desc)
    ctx.case(desc, n >= 2 and order != ids)


def rand_injective_map(r, ids, style):
    if style == 'lengthen':
        return {i: i + '_renamed_%d' % k for k, i in enumerate(ids)}
    if style == 'shorten':
        return {i: '%d' % k for k, i in enumerate(ids)}
    if style == 'swap':
        p = list(ids)
        r.shuffle(p)
        return dict(zip(ids, p))
    if style == 'rotate':
        return {i: ids[(k + 1) % len(ids)] for k, i in enumerate(ids)}
    if style == 'identity':
        return {i: i for i in ids}
    if style == 'mixed':
        return {i: (i + 'é日' if k % 2 else 'z%d' % k)
                for k, i in enumerate(ids)}
    raise ValueError(style)


def run_random(ctx, index):
    r = ctx.rng(index)
    tracer = r.random() < .6
    if tracer:
        spec = gen.tracer_spec(r, r.randint(1, 7), r.randint(1, 7),
                               with_md=r.random() < .7,
                               id_class=r.choice(gen.ID_CLASSES + [
                                   'decimal', 'natsort', 'numeric']))
        spec.type = r.choice(gen.TABLE_TYPES + [None])
    else:
        spec = gen.gen_spec(r, max_n=7, max_m=7)
    recipe = r.choice(gen.LAYOUTS)
    objids = r.random() < .15
    t = make_table(ctx, spec, recipe, r, objids)
    st = note_layout(ctx, t)
    axis = r.choice(['sample', 'observation'])
    ids = spec.ids(axis)
    op = r.choice(['sort_order', 'sort', 'sort_f', 'align_to', 'transpose',
                   'copy', 'update_ids', 'update_ids', 'update_ids_bad',
                   'align_bad'])
    desc = {'table': spec.describe(), 'recipe': recipe, 'layout': st,
            'op': op, 'axis': axis, 'objids': objids}
    ctx.cls('op', op)
    ctx.cls('ids', spec.classes.get('ids_obs', 'tracer'))
    before = snap.snap(t)
    nontrivial = len(ids) >= 2
    if op == 'sort_order':
        order = list(ids)
        r.shuffle(order)
        desc['order'] = order
        do_sort_order(ctx, t, spec, order, axis, desc,
                      r.choice(['list', 'tuple', 'ndarray', 'objarray',
                                'pandas-index']))
        nontrivial = nontrivial and order != ids
    elif op in ('sort', 'sort_f'):
        if op == 'sort_f':
            calls = []
            mode = r.choice(['reverse', 'len', 'shuffle'])
            rr = ctx.rng(index, 'sortf')

            def sort_f(x):
                x = [str(i) for i in x]
                calls.append(list(x))
                if mode == 'reverse':
                    out = sorted(x, reverse=True)
                elif mode == 'len':
                    out = sorted(x, key=lambda s: (len(s), s))
                else:
                    out = list(x)
                    rr.shuffle(out)
                calls.append(out)
                return out
            res = t.sort(sort_f=sort_f, axis=axis)
            if len(calls) != 2 or calls[0] != ids:
                raise Violation('C06/sort_f-call', 'sort_f called with %r, '
                                'axis ids are %r; case=%r' % (calls[:1], ids,
                                                             desc))
            order = calls[1]
        else:
            first = None
            if r.random() < .3:
                # user code asks the library's sorter for the order, turns
                # the list it got (its own list now) into the descending
                # order and reorders with it; the default sort afterwards
                # still is the ascending one
                from biom.util import natsort
                mine = natsort(t.ids(axis=axis))
                first = [str(i) for i in mine]
                mine.reverse()
                desc['descending_first'] = True
                down = t.sort_order(mine, axis=axis)
                if [str(i) for i in down.ids(axis=axis)] != first[::-1]:
                    raise Violation('C06/order', 'sort_order with the '
                                    'reversed natural order %r gave %r; '
                                    'case=%r' % (first[::-1], list(
                                        down.ids(axis=axis)), desc))
                oracles.check_against_spec(down, permuted(spec, first[::-1],
                                                          axis),
                                           'C06/sort_order', desc)
                ctx.count('sorter_result_changed_by_caller')
            res = t.sort(axis=axis)
            order = [str(i) for i in res.ids(axis=axis)]
            if first is not None and order != first:
                raise Violation('C06/natsort-order', 'default sort gave %r, '
                                'the sorter had said %r for the same ids; '
                                'case=%r' % (order, first, desc))
            if sorted(order) != sorted(ids):
                raise Violation('C06/sort-not-permutation', 'sort produced '
                                'ids %r from %r; case=%r' % (order, ids,
                                                             desc))
            if all(i.isascii() for i in ids):
                want = sorted(ids, key=natural_key)
                if order != want:
                    raise Violation('C06/natsort-order', 'default sort gave '
                                    '%r, natural order is %r; case=%r' %
                                    (order, want, desc))
                ctx.count('natural_order_checked')
            # numeric order for ids of the form <same prefix><int>
            import re
            mm = [re.fullmatch(r'([A-Za-z]*)(\d+)', i) for i in ids]
            if all(mm) and len({m.group(1) for m in mm}) == 1:
                nums = [int(re.fullmatch(r'[A-Za-z]*(\d+)', i).group(1))
                        for i in order]
                if nums != sorted(nums):
                    raise Violation('C06/natsort-order', 'default sort gave '
                                    '%r; case=%r' % (order, desc))
                ctx.count('natsort_numeric_checked')
            # ... and of the form <same prefix><number with a fraction>:
            # natural order compares the numbers
            mm = [re.fullmatch(r'([A-Za-z_]*)(\d+(?:\.\d+)?)', i)
                  for i in ids]
            if all(mm) and len({m.group(1) for m in mm}) == 1 and \
                    any('.' in m.group(2) for m in mm):
                vals = [float(re.fullmatch(r'[A-Za-z_]*(\d+(?:\.\d+)?)',
                                           i).group(1)) for i in order]
                if len(set(vals)) == len(vals) and vals != sorted(vals):
                    raise Violation('C06/natsort-order', 'default sort gave '
                                    '%r; case=%r' % (order, desc))
                ctx.count('natsort_decimal_checked')
        ctx.count('sort')
        desc['order'] = order
        exp = permuted(spec, order, axis)
        oracles.check_against_spec(res, exp, 'C06/sort', desc)
        oracles.check_by_ids(res, exp, 'C06/sort', desc)
        oracles.unchanged(t, before, 'C06/sort-modified-receiver', desc)
        edit_result_md(ctx, res, t, before, desc, 'sort')
        nontrivial = nontrivial and order != ids
    elif op == 'align_to':
        oo = list(spec.obs_ids)
        so = list(spec.samp_ids)
        r.shuffle(oo)
        r.shuffle(so)
        ospec = permuted(permuted(spec, oo, 'observation'), so, 'sample')
        ospec.D = ospec.D * 2 + 1     # other's values are irrelevant
        other = gen.build(ctx.biom, ospec, r.choice(['dense', 'csc']))
        ax = r.choice(['sample', 'observation', 'both', 'detect'])
        desc.update(align_axis=ax, other_obs=oo, other_samp=so)
        obefore = snap.snap(other)
        res = t.align_to(other, axis=ax)
        ctx.count('align_to')
        exp = spec
        if ax in ('observation', 'both', 'detect'):
            exp = permuted(exp, oo, 'observation')
        if ax in ('sample', 'both', 'detect'):
            exp = permuted(exp, so, 'sample')
        oracles.check_against_spec(res, exp, 'C06/align_to', desc)
        oracles.check_by_ids(res, exp, 'C06/align_to', desc)
        oracles.unchanged(t, before, 'C06/align_to-modified-receiver', desc)
        oracles.unchanged(other, obefore, 'C06/align_to-modified-other',
                          desc, 'argument')
        edit_result_md(ctx, res, t, before, desc, 'align_to')
        nontrivial = (len(oo) >= 2 and oo != spec.obs_ids) or \
            (len(so) >= 2 and so != spec.samp_ids)
    elif op == 'align_bad':
        ospec = spec.copy()
        ax = r.choice(['sample', 'observation', 'both'])
        bad_axis = ax if ax != 'both' else r.choice(['sample', 'observation'])
        bid = ospec.ids(bad_axis)
        bid[r.randrange(len(bid))] += '_other'
        other = gen.build(ctx.biom, ospec, 'dense')
        desc.update(align_axis=ax, bad_axis=bad_axis)
        try:
            res = t.align_to(other, axis=ax)
        except Exception:
            ctx.count('align_refused')
        else:
            # outside the quantifier (id sets differ); whatever comes back
            # must at least not invent or lose ids of the receiver
            if sorted(snap.snap(res).ids(bad_axis)) != sorted(
                    spec.ids(bad_axis)):
                raise Violation('C06/align-changed-id-set', 'align_to with a '
                                'different id set returned ids %r; case=%r' %
                                (snap.snap(res).ids(bad_axis), desc))
            ctx.count('align_refused')
        oracles.unchanged(t, before, 'C06/align_to-modified-receiver', desc)
    elif op == 'transpose':
        res = t.transpose()
        ctx.count('transpose')
        exp = transposed(spec)
        f = ('obs_ids', 'samp_ids', 'D', 'obs_md', 'samp_md')
        oracles.check_against_spec(res, exp, 'C06/transpose', desc, fields=f)
        oracles.check_by_ids(res, exp, 'C06/transpose', desc)
        oracles.unchanged(t, before, 'C06/transpose-modified-receiver', desc)
        back = res.transpose()
        oracles.check_against_spec(back, spec, 'C06/transpose-twice', desc,
                                   fields=f)
        ctx.count('inverse_roundtrips')
        nontrivial = spec.D.shape != (1, 1)
    elif op == 'copy':
        res = t.copy()
        ctx.count('copy')
        oracles.check_against_spec(res, spec, 'C06/copy', desc)
        oracles.check_by_ids(res, spec, 'C06/copy', desc)
        if not (res == t) or (res != t):
            raise Violation('C06/copy-not-equal', 'copy != original; case=%r'
                            % (desc,))
        nontrivial = True
    elif op == 'update_ids':
        style = r.choice(['lengthen', 'shorten', 'swap', 'rotate',
                          'identity', 'mixed'])
        m = rand_injective_map(r, ids, style)
        strict = r.random() < .5
        partial = False
        if not strict and r.random() < .7 and style in ('lengthen',
                                                        'shorten', 'mixed'):
            # partial renaming: keep an arbitrary subset untouched; new names
            # must not collide with retained ones
            keepn = r.randint(0, len(ids))
            drop = set(r.sample(ids, keepn))
            m = {k: v for k, v in m.items() if k not in drop}
            partial = True
            if set(m.values()) & (set(ids) - set(m)):
                m = {k: v + '#' for k, v in m.items()}
        inplace = r.random() < .5
        desc.update(style=style, id_map=m, strict=strict, inplace=inplace)
        new_ids = [m.get(i, i) for i in ids]
        exp = spec.copy()
        if axis == 'observation':
            exp.obs_ids = new_ids
        else:
            exp.samp_ids = new_ids
        given = dict(m)
        if r.random() < .25:
            # the map as another kind of mapping: one that answers for keys
            # it does not hold (a defaultdict), or a read-only view
            import collections
            import types
            if r.random() < .6:
                given = collections.defaultdict(str, m)
            else:
                given = types.MappingProxyType(dict(m))
            desc['id_map_kind'] = type(given).__name__
            ctx.count('id_map_of_another_mapping_type')
        res = t.update_ids(given, axis=axis, strict=strict, inplace=inplace)
        ctx.count('update_ids')
        ctx.cls('rename_style', style + ('/partial' if partial else ''))
        if (res is t) != inplace:
            raise Violation('C06/update_ids-identity', 'inplace=%r but '
                            'result is%s the receiver; case=%r' %
                            (inplace, '' if res is t else ' not', desc))
        oracles.check_against_spec(res, exp, 'C06/update_ids', desc)
        oracles.check_by_ids(res, exp, 'C06/update_ids', desc)
        for old in ids:
            if old not in new_ids and res.exists(old, axis=axis):
                raise Violation('C06/update_ids-stale-lookup', 'old id %r '
                                'still reported as existing; case=%r' %
                                (old, desc))
        if not inplace:
            oracles.unchanged(t, before, 'C06/update_ids-modified-receiver',
                              desc)
        inv = {v: k for k, v in m.items()}
        back = res.update_ids(inv, axis=axis, strict=False, inplace=False)
        oracles.check_against_spec(back, spec, 'C06/update_ids-inverse',
                                   desc)
        ctx.count('inverse_roundtrips')
        nontrivial = new_ids != ids
    elif op == 'update_ids_bad':
        if len(ids) < 2:
            ctx.skip('update_ids_bad needs >=2 ids')
            return
        kind = r.choice(['collide', 'collide-retained', 'missing-strict'])
        inplace = r.random() < .5
        if kind == 'collide':
            m = {i: 'same' for i in ids}
            strict = True
        elif kind == 'collide-retained':
            m = {ids[0]: ids[1]}
            strict = False
        else:
            m = {ids[0]: 'only-one'}
            strict = True
        desc.update(kind=kind, id_map=m, strict=strict, inplace=inplace)
        if kind == 'missing-strict' and r.random() < .5:
            import collections
            m = collections.defaultdict(str, m)
            desc['id_map_kind'] = 'defaultdict'
        try:
            t.update_ids(m, axis=axis, strict=strict, inplace=inplace)
        except Exception:
            ctx.count('update_ids_refused')
        else:
            raise Violation('C06/update_ids-not-refused', 'a %s renaming '
                            'was accepted; case=%r' % (kind, desc))
        oracles.unchanged(t, before, 'C06/update_ids-refused-but-changed',
                          desc)
        oracles.check_by_ids(t, spec, 'C06/update_ids-refused-but-changed',
                             desc)
    ctx.case(desc, bool(nontrivial))


def setup(ctx):
    from biom.exception import TableException, DisjointIDError
    ctx.TableException = TableException
    ctx.DisjointIDError = DisjointIDError


def run_case(ctx, index):
    p = plan(ctx.tier)
    if index < p['exh']:
        run_exh(ctx, index)
    else:
        run_random(ctx, index)


def summarize(counters, extra, tier):
    return {'exhaustive_scope': 'all %d permutations of axes of length 1..4 x '
            '2 axes x %d layout recipes x metadata on/off' %
            (len(_PERMS), len(_RECIPES))}


def natural_key(s):
    """Natural order, stated independently of the library (a scanner, not
    its regular expression): an id is cut into runs of ASCII digits with an
    optional '.digits' fraction (numbers: they compare by value and sort
    before text) and the text between them; the id itself breaks ties."""
    digits = '0123456789'
    out, i, n = [], 0, len(s)
    if n and s[0] in digits:
        out.append((1, ''))
    while i < n:
        if s[i] in digits:
            j = i
            while j < n and s[j] in digits:
                j += 1
            frac = False
            if j + 1 < n and s[j] == '.' and s[j + 1] in digits:
                j += 1
                while j < n and s[j] in digits:
                    j += 1
                frac = True
            out.append((0, float(s[i:j]) if frac else int(s[i:j])))
            i = j
            k = i
            while k < n and s[k] not in digits:
                k += 1
            out.append((1, s[i:k]))     # (possibly empty) text after it
            i = k
        else:
            k = i
            while k < n and s[k] not in digits:
                k += 1
            out.append((1, s[i:k]))
            i = k
    return (out or [(1, '')], s)


def stress(ctx):
    """Fixed probes of the default (natural) order: numbers inside ids
    compare as numbers, with and without fractional parts, on both axes."""
    r = ctx.rng('stress')
    pools = [
        ['0.125', '0.13', '7.250', '7.26', '1.10', '1.9', '12.50', '12.6',
         '3', '10', '2.05', '2.5', '0.5', '0.05', '100.001', '100.01',
         '9.99', '9.9', '1.25', '1.3'],
        ['1', '2', '10', '20', '100', '9', '11', '101', '19', '3'],
    ]
    # a point that is not part of a number is text
    odd = ['S1.run', 'S1_run', 'S1Run', 'S1.5run', 'lane2.', 'lane2-',
           'lane2.0', 'otu7.b', 'otu7b', 'otu7.1b', 'v1.2.3', 'v1.2.10',
           'v1.10', '1.a', '1a', '1.5a',
           # whole numbers beyond 2**53 are still whole numbers
           'run10000000000000001_a', 'run10000000000000000_b',
           'r9007199254740993', 'r9007199254740992x',
           '18446744073709551617', '18446744073709551616b',
           # numbers equal in value, spelled differently: the id's own text
           # decides among them
           't1', 't01', 't001', 'u2.0', 'u2', 'u02', 'u2.00']
    for axis in ('sample', 'observation'):
        ids = list(odd)
        r.shuffle(ids)
        V = np.arange(len(ids) * 2, dtype=float).reshape(len(ids), 2) + 1
        spec = gen.Spec(ids if axis == 'observation' else ['a', 'b'],
                        ['a', 'b'] if axis == 'observation' else ids,
                        V if axis == 'observation' else V.T)
        res = gen.build(ctx.biom, spec, 'dense').sort(axis=axis)
        order = [str(i) for i in res.ids(axis=axis)]
        want = sorted(ids, key=natural_key)
        if order != want:
            raise Violation('C06/natsort-order', 'default sort gave %r, '
                            'natural order is %r' % (order, want))
        ctx.count('natsort_probes')
    for pool in pools:
        for pre in ('', 'd', 'sample_'):
            for axis in ('sample', 'observation'):
                ids = [pre + p for p in pool]
                r.shuffle(ids)
                V = np.arange(len(ids) * 2, dtype=float).reshape(
                    len(ids), 2) + 1
                spec = gen.Spec(ids if axis == 'observation' else ['a', 'b'],
                                ['a', 'b'] if axis == 'observation' else ids,
                                V if axis == 'observation' else V.T)
                t = gen.build(ctx.biom, spec, 'dense')
                res = t.sort(axis=axis)
                order = [str(i) for i in res.ids(axis=axis)]
                want = sorted(ids, key=lambda i: float(i[len(pre):]))
                desc = {'probe': 'natural order', 'ids': ids, 'axis': axis}
                if order != want:
                    raise Violation('C06/natsort-order', 'default sort gave '
                                    '%r, the numbers order as %r; case=%r' %
                                    (order, want, desc))
                oracles.check_against_spec(res, permuted(spec, order, axis),
                                           'C06/sort', desc)
                ctx.count('natsort_probes')
                ctx.case(desc, True)
