"""C13 -- value transforms touch only non-zero entries and mean what they say.

Monitors: callback tap on the user function (M3), dense reference model,
independent rank implementation, CLI normalize-table through CliRunner.
"""
import numpy as np

from vm import gen, snap, oracles
from vm.ctx import Violation

ID = 'C13'
TITLE = 'transforms touch only non-zero entries'
LEVEL = 'exploration'
RULE = ('generated tables (all value classes; non-negative for norm) x 13 '
        'layout recipes x axis x inplace x {8 transform functions, norm, pa, '
        'rankdata x 5 methods, normalize-table CLI}. Non-trivial: the '
        'function changes >=1 value and a transformed vector has >=1 zero '
        'cell; distinct = distinct (table, layout state, op, args)')
ASSUMPTIONS = [
    'vector-wise functions are permutation-equivariant (results must not '
    'depend on the storage order of the non-zero entries)',
    'norm compared at rtol 1e-12 (float summation order is free); '
    'element-wise functions compared bit-for-bit',
    "'ordinal' ranks are only required to be a permutation consistent with "
    'the value order (ties depend on storage order)',
]
ANCHORS = ['Table.transform', 'Table.norm', 'Table.pa', 'Table.rankdata', '_normalize_table']
REQUIRED = ['function_writes_metadata', 'pa_tables_with_non_finite_cell', 'function_reads_the_table', 'second_transform_on_result', 'norm_with_repeated_ids', 'norm_signed_positive_total_vectors', 'tap_calls_checked', 'op_transform', 'op_norm', 'op_pa',
            'op_rankdata', 'cli_runs', 'axis_agreement_checked',
            'layout_csc_seen', 'layout_unsorted_seen', 'zero_cells_checked']


def plan(tier):
    n = 6000 if tier == 'quick' else 200000
    return {'cases': n, 'shards': 16, 'min_nontrivial': 500,
            'timeout': 900 if tier == 'quick' else 3600}


def _mdnum(md):
    if not md:
        return 1.0
    for k in sorted(md, key=str):
        v = md[k]
        if isinstance(v, (int, float)) and not isinstance(v, bool) and v:
            return float(abs(v) % 7 + 1)
    return 2.0


FUNCS = {
    # name: (function, element-wise?, rtol, domain)
    'x2': (lambda v, i, m: v * 2, True, None, 'any'),
    'plus1': (lambda v, i, m: v + 1, True, None, 'any'),
    'square': (lambda v, i, m: v * v, True, None, 'moderate'),
    'neg': (lambda v, i, m: -v, True, None, 'any'),
    'zero-small': (lambda v, i, m: np.where(np.abs(v) > 2, v, 0.), True,
                   None, 'any'),
    'zero-all': (lambda v, i, m: v * 0, True, None, 'finite-mult'),
    'frac-of-sum': (lambda v, i, m: v / v.sum(), False, 1e-12, 'positive'),
    'minus-min-plus1': (lambda v, i, m: v - v.min() + 1 if len(v) else v, False, None,
                        'moderate'),
    'by-id-len': (lambda v, i, m: v * len(i), False, None, 'moderate'),
    'by-md': (lambda v, i, m: v * _mdnum(m), False, None, 'moderate'),
}


def ref_rank(x, method):
    x = np.asarray(x, dtype=float)
    out = np.zeros(len(x))
    for k, v in enumerate(x):
        lt = np.sum(x < v)
        eq = np.sum(x == v)
        if method == 'average':
            out[k] = lt + (eq + 1) / 2.0
        elif method == 'min':
            out[k] = lt + 1
        elif method == 'max':
            out[k] = lt + eq
        elif method == 'dense':
            out[k] = len(set(x[x < v].tolist())) + 1
    return out


def expected_transform(spec, f, axis):
    out = spec.copy()
    ids = spec.ids(axis)
    md = spec.md(axis)
    for k, i in enumerate(ids):
        vec = out.D[k, :] if axis == 'observation' else out.D[:, k]
        nz = np.nonzero(vec)[0]
        new = f(vec[nz].copy(), i, None if md is None else md[k])
        vec[nz] = new
    return out


def note_layout(ctx, t):
    st = gen.layout_state(t)
    ctx.cls('layout_state', st)
    if 'unsorted' in st:
        ctx.count('layout_unsorted_seen')
    if st.startswith('csc'):
        ctx.count('layout_csc_seen')
    return st


def check_tap(ctx, log, spec, axis, desc):
    ids = spec.ids(axis)
    if [e[1] for e in log] != list(ids):
        raise Violation('C13/function-call-sequence', 'function called for '
                        '%r, axis ids are %r; case=%r' % ([e[1] for e in log],
                                                          ids, desc))
    md = spec.md(axis)
    for k, (v, i, m) in enumerate(log):
        true = spec.vec(i, axis)
        nz = true[true != 0]
        if sorted(v.tolist()) != sorted(nz.tolist()):
            raise Violation('C13/function-wrong-data', 'function for %r got '
                            '%r; the non-zero values of that vector are %r; '
                            'case=%r' % (i, v.tolist(), nz.tolist(), desc))
        em = {} if md is None else snap.canon_md([md[k]], 1)[0]
        gm = {} if m is None else snap.canon_md([m], 1)[0]
        if not snap.md_equal([gm], [em]):
            raise Violation('C13/function-wrong-metadata', 'function for %r '
                            'got metadata %r, its own is %r; case=%r' %
                            (i, gm, em, desc))
        ctx.count('tap_calls_checked')


def check_zero_cells(ctx, res, spec, desc):
    D = snap.snap(res).D
    if D.shape == spec.D.shape:
        bad = np.argwhere((spec.D == 0) & (D != 0))
        if len(bad):
            raise Violation('C13/zero-cell-became-nonzero', 'cell %r was 0 '
                            'and is now %r; case=%r' %
                            (bad[0].tolist(), float(D[tuple(bad[0])]), desc))
        if np.count_nonzero(D) > np.count_nonzero(spec.D):
            raise Violation('C13/density-increased', 'case=%r' % (desc,))
        ctx.count('zero_cells_checked')


def run_case(ctx, index):
    r = ctx.rng(index)
    op = r.choice(['transform', 'transform', 'transform', 'norm', 'pa',
                   'rankdata', 'cli', 'axis-agreement'])
    if index % 10 == 0:
        op = 'cli'
    fname = r.choice(sorted(FUNCS))
    f, elementwise, rtol, domain = FUNCS[fname]
    vcl = None
    if op in ('norm', 'cli') or (op == 'transform' and domain == 'positive'):
        vcl = ['count', 'bigcount', 'dyadic', 'frac', 'tiny', 'manydigits']
        if op in ('norm', 'cli'):
            # totals far below the smallest normal number are totals too
            vcl.append('subnormal')
    elif op in ('transform', 'axis-agreement') and domain == 'moderate':
        vcl = ['count', 'dyadic', 'frac', 'neg', 'tiny', 'manydigits',
               'bigcount']
    elif op in ('transform', 'axis-agreement') and domain == 'finite-mult':
        vcl = [c for c in gen.VALUE_CLASSES if c not in ('huge', 'mixed')]
    if op == 'axis-agreement':
        elem = [k for k, v in FUNCS.items() if v[1]]
        fname = r.choice(elem)
        f, elementwise, rtol, domain = FUNCS[fname]
        vcl = ['count', 'dyadic', 'frac', 'neg', 'tiny', 'manydigits']
    signed_norm = op == 'norm' and r.random() < .3
    if signed_norm:
        # vectors holding negative entries too: those whose total is
        # positive are still to be scaled to sum 1 (small whole numbers, so
        # every total is exact)
        vcl = ['neg']
        ctx.count('norm_signed_tables')
    spec = gen.gen_spec(r, max_n=6, max_m=6, value_classes=vcl)
    if op in ('norm', 'cli') and r.random() < .25 and spec.D.any() and \
            np.all(spec.D >= 0):
        # vectors that are almost, but not exactly, normalised already
        ax = r.choice([0, 1])
        tot = spec.D.sum(axis=ax, keepdims=True)
        spec.D = np.where(tot > 0, spec.D / np.where(tot > 0, tot, 1), 0.) \
            * r.choice([1 - 3e-6, 1 + 2e-6, 1 - 4e-7, 0.999999])
        ctx.count('near_normalised_tables')
    if op == 'pa' and spec.D.any() and r.random() < .2:
        # a cell that holds no finite number is not a zero cell
        nzr, nzc = np.nonzero(spec.D)
        q = r.randrange(len(nzr))
        spec.D[nzr[q], nzc[q]] = r.choice([float('nan'), float('inf'),
                                           float('-inf')])
        ctx.count('pa_tables_with_non_finite_cell')
    recipe = r.choice(gen.LAYOUTS)
    axis = r.choice(['sample', 'observation'])
    inplace = r.random() < .5
    t = gen.apply_layout(ctx.biom, spec, recipe, r)
    st = note_layout(ctx, t)
    desc = {'table': spec.describe(), 'recipe': recipe, 'layout': st,
            'op': op, 'axis': axis, 'inplace': inplace}
    ctx.cls('values', spec.classes['values'])
    before = snap.snap(t)
    has_zero_in_vec = bool(np.any(spec.D == 0) and np.any(spec.D != 0))

    def finish(res, exp, sig, rtol=None):
        if (res is t) != inplace:
            raise Violation('C13/inplace-identity', 'inplace=%r; case=%r' %
                            (inplace, desc))
        oracles.check_against_spec(res, exp, sig, desc, rtol=rtol)
        check_zero_cells(ctx, res, spec, desc)
        if not inplace:
            oracles.unchanged(t, before, 'C13/receiver-modified', desc)

    if op == 'transform':
        desc['f'] = fname
        log = []

        # a fifth of the functions look something up in the table they are
        # transforming (reading only: a vector of the other axis, a sum, the
        # vector's own row once more): what they are given and what becomes
        # of their answer is the same
        reads = None
        other_ax = 'observation' if axis == 'sample' else 'sample'
        if r.random() < .2 and spec.ids(other_ax):
            reads = r.choice(['other-axis-vector', 'other-axis-sum',
                              'same-axis-vector', 'cell'])
            desc['function_reads_the_table'] = reads
            ctx.count('function_reads_the_table')
        oid0 = spec.ids(other_ax)[0] if spec.ids(other_ax) else None

        # ... and a tenth annotate the metadata entry they are handed (the
        # entry of the table being transformed: the copy's when
        # inplace=False, so the receiver must not show the note)
        writes_md = r.random() < .1 and spec.md(axis) is not None
        if writes_md:
            desc['function_writes_metadata'] = True
            ctx.count('function_writes_metadata')

        def tap(v, i, m):
            log.append((np.array(v, dtype=float, copy=True), str(i),
                        None if m is None else dict(m)))
            if writes_md and m is not None:
                m['seen by f'] = 'id %s' % i
            if reads == 'other-axis-vector':
                t.data(oid0, axis=other_ax, dense=True)
            elif reads == 'other-axis-sum':
                t.sum(axis=other_ax)
            elif reads == 'same-axis-vector':
                t.data(i, axis=axis, dense=False)
            elif reads == 'cell':
                t.get_value_by_ids(*((i, oid0) if axis == 'observation'
                                     else (oid0, i)))
            return f(v, i, m)
        res = t.transform(tap, axis=axis, inplace=inplace)
        ctx.count('op_transform')
        ctx.cls('function', fname)
        check_tap(ctx, log, spec, axis, desc)
        exp = expected_transform(spec, f, axis)
        if writes_md:
            for i_, e_ in zip(exp.ids(axis), exp.md(axis)):
                e_['seen by f'] = 'id %s' % i_
        finish(res, exp, 'C13/transform-result/' + fname, rtol)
        changed = not snap.bits_equal(exp.D, spec.D)
        if r.random() < .4:
            # a second transform on what the first one returned: it sees the
            # non-zero values of *that* table (cells the first function set
            # to zero are zero cells now), and an element-wise +1 must not
            # bring them back
            axis2 = r.choice(['sample', 'observation'])
            exp_now = gen.Spec(exp.obs_ids, exp.samp_ids,
                               np.array(snap.snap(res).D), exp.obs_md,
                               exp.samp_md, exp.type)
            log2 = []

            def tap2(v, i, m):
                log2.append((np.array(v, dtype=float, copy=True), str(i),
                             None if m is None else dict(m)))
                return v + 1
            res2 = res.transform(tap2, axis=axis2, inplace=bool(
                r.random() < .5))
            d2 = dict(desc, second_transform_axis=axis2)
            check_tap(ctx, log2, exp_now, axis2, d2)
            check_zero_cells(ctx, res2, exp_now, d2)
            ctx.count('second_transform_on_result')
    elif op == 'norm':
        res = t.norm(axis=axis, inplace=inplace)
        ctx.count('op_norm')
        exp = spec.copy()
        tot = spec.D.sum(axis=1 if axis == 'observation' else 0)
        with np.errstate(all='ignore'):
            if axis == 'observation':
                exp.D = np.where(tot[:, None] > 0, spec.D / np.where(
                    tot[:, None] > 0, tot[:, None], 1), 0.)
            else:
                exp.D = np.where(tot[None, :] > 0, spec.D / np.where(
                    tot[None, :] > 0, tot[None, :], 1), 0.)
        if signed_norm:
            # nothing is stated about vectors whose total is not positive:
            # take those as they come
            got = snap.snap(res).D
            if got.shape == exp.D.shape:
                if axis == 'observation':
                    exp.D[tot <= 0, :] = got[tot <= 0, :]
                else:
                    exp.D[:, tot <= 0] = got[:, tot <= 0]
            if np.any((tot > 0) & (np.min(
                    spec.D, axis=1 if axis == 'observation' else 0) < 0)):
                ctx.count('norm_signed_positive_total_vectors')
        finish(res, exp, 'C13/norm-result', rtol=1e-12)
        D = snap.snap(res).D
        sums = D.sum(axis=1 if axis == 'observation' else 0)
        for k, s in enumerate(sums):
            if tot[k] > 0 and abs(s - 1.0) > 1e-9:
                raise Violation('C13/norm-sum', 'vector %d sums to %r; '
                                'case=%r' % (k, float(s), desc))
        changed = bool(np.any(tot > 0))
    elif op == 'pa':
        res = t.pa(inplace=inplace)
        ctx.count('op_pa')
        exp = spec.copy()
        exp.D = (spec.D != 0).astype(float)
        finish(res, exp, 'C13/pa-result')
        changed = not snap.bits_equal(exp.D, spec.D)
    elif op == 'rankdata':
        method = r.choice(['average', 'min', 'max', 'dense', 'ordinal'])
        desc['method'] = method
        res = t.rankdata(axis=axis, inplace=inplace, method=method)
        ctx.count('op_rankdata')
        ctx.cls('rank_method', method)
        if method != 'ordinal':
            exp = expected_transform(spec, lambda v, i, m: ref_rank(v,
                                                                    method),
                                     axis)
            finish(res, exp, 'C13/rank-result/' + method)
        else:
            D = snap.snap(res).D
            check_zero_cells(ctx, res, spec, desc)
            for k in range(len(spec.ids(axis))):
                o = spec.D[k, :] if axis == 'observation' else spec.D[:, k]
                g = D[k, :] if axis == 'observation' else D[:, k]
                nz = np.nonzero(o)[0]
                ranks = g[nz]
                if sorted(ranks.tolist()) != list(range(1, len(nz) + 1)):
                    raise Violation('C13/rank-ordinal', 'ranks %r are not a '
                                    'permutation of 1..%d; case=%r' %
                                    (ranks.tolist(), len(nz), desc))
                for a in range(len(nz)):
                    for b in range(len(nz)):
                        if o[nz[a]] < o[nz[b]] and not ranks[a] < ranks[b]:
                            raise Violation('C13/rank-ordinal', 'order not '
                                            'respected; case=%r' % (desc,))
            if (res is t) != inplace:
                raise Violation('C13/inplace-identity', 'case=%r' % (desc,))
        changed = True
    elif op == 'axis-agreement':
        desc['f'] = fname
        a = t.transform(f, axis='sample', inplace=False)
        t2 = gen.apply_layout(ctx.biom, spec, recipe, ctx.rng(index, 't2'))
        b = t2.transform(f, axis='observation', inplace=False)
        da = snap.diff(snap.snap(a), snap.snap(b))
        if da:
            raise Violation('C13/axis-disagreement/' + fname, 'element-wise '
                            'function gives different tables per axis: %s; '
                            'case=%r' % ('; '.join(da), desc))
        exp = expected_transform(spec, f, 'sample')
        oracles.check_against_spec(a, exp, 'C13/transform-result/' + fname,
                                   desc)
        oracles.unchanged(t, before, 'C13/receiver-modified', desc)
        ctx.count('axis_agreement_checked')
        changed = not snap.bits_equal(exp.D, spec.D)
    elif op == 'cli':
        mode = r.choice(['-r', '-p'])
        desc['cli'] = ['normalize-table', mode, '-a', axis]
        if spec.obs_md is not None or spec.samp_md is not None:
            # HDF5 needs homogeneous metadata; ours are
            pass
        inp = ctx.path('in_%d.biom' % index)
        outp = ctx.path('out_%d.biom' % index)
        import os
        for p in (inp, outp):
            if os.path.exists(p):
                os.remove(p)
        ctx.biom.save_table(t, inp)
        from click.testing import CliRunner
        from biom.cli import cli
        rr = CliRunner().invoke(cli, ['normalize-table', '-i', inp, '-o',
                                      outp, mode, '-a', axis])
        if rr.exit_code != 0:
            raise Violation('C13/cli-failed', 'normalize-table exit %s: %r %r;'
                            ' case=%r' % (rr.exit_code, rr.output[-300:],
                                          rr.exception, desc))
        res = ctx.biom.load_table(outp)
        os.remove(inp)
        os.remove(outp)
        exp = spec.copy()
        if mode == '-p':
            exp.D = (spec.D != 0).astype(float)
            rt = None
        else:
            tot = spec.D.sum(axis=1 if axis == 'observation' else 0)
            den = np.where(tot > 0, tot, 1)
            exp.D = spec.D / (den[:, None] if axis == 'observation' else
                              den[None, :])
            rt = 1e-12
        oracles.check_against_spec(res, exp, 'C13/cli-result' + mode, desc,
                                   rtol=rt, fields=('obs_ids', 'samp_ids',
                                                    'D'))
        ctx.count('cli_runs')
        changed = True
    ctx.case(desc, bool(changed and has_zero_in_vec))


def stress(ctx):
    from vm.checks import _stress
    _stress.stress_transform(ctx, ctx.rng('stress'))
    # vectors are normalised one by one, whatever they are called: a table
    # built under a profile that tolerates repeated ids (positions decide)
    from biom.err import errstate
    V = np.array([[2., 0., 6.], [1., 1., 2.], [0., 5., 5.]])
    for axis, kind in (('sample', 'sampdup'), ('observation', 'obsdup')):
        for inplace in (False, True):
            with errstate(**{kind: 'ignore'}):
                ids = ['x', 'y', 'x']
                t = ctx.biom.Table(V.copy(),
                                   ids if axis == 'observation' else
                                   ['o1', 'o2', 'o3'],
                                   ['s1', 's2', 's3'] if axis == 'observation'
                                   else ids)
                res = t.norm(axis=axis, inplace=inplace)
            R = res.matrix_data.toarray()
            tot = V.sum(axis=1 if axis == 'observation' else 0)
            exp = V / (tot[:, None] if axis == 'observation' else
                       tot[None, :])
            if not np.allclose(R, exp, rtol=1e-12, atol=0):
                raise Violation('C13/norm-result', 'table with a repeated %s '
                                'id: norm gave %r, every vector divided by '
                                'its own total is %r' % (axis, R.tolist(),
                                                         exp.tolist()))
            ctx.count('norm_with_repeated_ids')



def san_indices(tier):
    return [i for i in range(0, 600 if tier == 'quick' else 8000)
            if i % 10 != 0]
