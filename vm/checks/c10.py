"""C10 -- concatenation places every operand's block unchanged, pads zeros.

Monitors: dense reference over the operands, snapshot of operands (purity),
reach counters for the padding / re-sorting / pass-through branches.
"""
import numpy as np

from vm import gen, snap, oracles
from vm.ctx import Violation

ID = 'C10'
TITLE = 'concat places blocks unchanged, pads with zeros'
LEVEL = 'exploration'
RULE = ('k=1..5 operands with disjoint ids on the concatenation axis (ids of '
        'different lengths per operand) and other-axis ids identical / '
        'permuted / partially missing / disjoint / rotated; both axes; '
        'metadata on some, all or no operands; single table or list; '
        'Table.concat and biom.concat; all value classes; 8 layout recipes; '
        'PYTHONHASHSEED varied per shard in thorough. Non-trivial: >=2 '
        'operands and some operand lacks an other-axis id or stores them in '
        'a different order; distinct = distinct (operands, axis, entry)')
ASSUMPTIONS = [
    'order of the other axis in the result is not promised; compared as a '
    'set and cells addressed by id',
    'other-axis metadata and table type of the result are not constrained '
    'by the statement and are not compared',
]
ANCHORS = ['Table.concat', 'concat']
REQUIRED = ['concatenated_with_itself_refused', 'flat_operand_cases', 'concatenated_again_after_in_place_change', 'names_shared_between_the_axes', 'non_disjoint_under_relaxed_profile', 'hollow_operand_cases', 'hollow_operand_concatenated', 'concat_calls', 'operand_list_reused', 'branch_padding', 'branch_resort',
            'branch_passthrough', 'non_disjoint_refused', 'via_biom_concat',
            'via_table_concat', 'single_table_arg', 'axis_sample',
            'axis_observation', 'k1', 'k2', 'k3plus']
RECIPES = ['as-built', 'touch-sample', 'touch-obs', 'sort-unsort-samp',
           'sort-unsort-obs', 'csr-unsorted', 'coo-input',
           'filtered-keep-all']
OTHER = ['identical', 'permuted', 'missing', 'disjoint', 'rotated', 'random']


def plan(tier):
    n = 4000 if tier == 'quick' else 120000
    return {'cases': n, 'shards': 16, 'min_nontrivial': 500,
            'timeout': 900 if tier == 'quick' else 3600}


def self_operand_case(ctx, index, r):
    """A table concatenated with itself (the same object among the
    operands) shares every id with itself: refused, nothing changed."""
    import biom
    spec = gen.gen_spec(r, max_n=4, max_m=4)
    t = gen.apply_layout(ctx.biom, spec, r.choice(RECIPES), r)
    before = snap.snap(t)
    axis = r.choice(['sample', 'observation'])
    how = r.choice(['t.concat([t])', 't.concat(t)', 'biom.concat([t, t])'])
    desc = {'table': spec.describe(), 'self_operand': how, 'axis': axis}
    try:
        if how == 't.concat([t])':
            t.concat([t], axis=axis)
        elif how == 't.concat(t)':
            t.concat(t, axis=axis)
        else:
            biom.concat([t, t], axis=axis)
    except Exception:
        ctx.count('concatenated_with_itself_refused')
    else:
        raise Violation('C10/non-disjoint-accepted', 'a table was '
                        'concatenated with itself; case=%r' % (desc,))
    oracles.unchanged(t, before, 'C10/operand-modified', desc, 'operand')
    ctx.case(desc, True)


def run_case(ctx, index):
    r = ctx.rng(index)
    if index % 31 == 17:
        return self_operand_case(ctx, index, r)
    axis = 'sample' if index % 2 == 0 else 'observation'
    inv = 'observation' if axis == 'sample' else 'sample'
    k = r.choice([1, 2, 2, 2, 3, 3, 4, 5])
    ctx.count('k1' if k == 1 else 'k2' if k == 2 else 'k3plus')
    ctx.count('axis_' + axis)
    idc = r.choice(['ascii', 'natsort', 'numeric', 'latin1', 'punct',
                    'long', 'cjk'])
    universe = gen.gen_ids(r, r.randint(1, 6), idc, 'U')
    other_mode = OTHER[(index // 2) % len(OTHER)]
    vclass = r.choice(gen.VALUE_CLASSES)
    specs = []
    # one operand that has ids on the concatenation axis only (its other
    # axis is empty): those ids still belong in the result, all zero
    hollow = r.randrange(k) if (k >= 2 and index % 11 == 6) else None
    all_ax = []
    for j in range(k):
        # concat-axis ids: disjoint by construction, different lengths
        n_ax = r.randint(1, 4)
        style = r.choice(['short', 'long', 'mixed'])
        ax_ids = []
        for q in range(n_ax):
            base = '%s%d' % ('abcde'[j], q)
            if style == 'long' or (style == 'mixed' and q % 2):
                base = base + '_' + 'x' * r.randint(3, 12) + 'é'
            ax_ids.append(base)
        all_ax.append(ax_ids)
    if index % 7 == 3:
        # the same names on both axes (feature-by-feature tables): the
        # other-axis ids are drawn from the concat-axis ids of all operands
        flat = [i for a in all_ax for i in a]
        universe = r.sample(flat, r.randint(1, len(flat))) + \
            r.sample(universe, r.randint(0, min(2, len(universe))))
        universe = list(dict.fromkeys(universe))
        r.shuffle(universe)
        ctx.count('names_shared_between_the_axes')
    # ... and one that has ids on the other axis only (nothing to add along
    # the concatenation axis): the other-axis ids it names still belong to
    # the union
    flat = r.randrange(1, k) if (k >= 2 and index % 11 == 4) else None
    if flat is not None:
        all_ax[flat] = []
    for j in range(k):
        ax_ids = all_ax[j]
        n_ax = len(ax_ids)
        if other_mode == 'identical' or j == 0 and other_mode != 'disjoint':
            o_ids = list(universe)
        elif other_mode == 'permuted':
            o_ids = list(universe)
            r.shuffle(o_ids)
        elif other_mode == 'rotated':
            s = r.randrange(len(universe))
            o_ids = universe[s:] + universe[:s]
        elif other_mode == 'missing':
            o_ids = r.sample(universe, r.randint(1, len(universe)))
        elif other_mode == 'disjoint':
            o_ids = ['%s_only%d' % (u, j) for u in universe]
        else:
            o_ids = r.sample(universe, r.randint(1, len(universe)))
            if r.random() < .3:
                o_ids.append('extra%d' % j)
        if j == hollow:
            o_ids = []
        if j == flat:
            o_ids = o_ids + ['flat_only%d' % j]
        shape = (len(o_ids), n_ax) if axis == 'sample' else (n_ax,
                                                              len(o_ids))
        D = gen.gen_matrix(r, shape[0], shape[1], vclass,
                           r.choice([.3, .7, 1.0]))
        has_md = r.random() < .6
        ax_md = [{'op': j, 'id': i, 'tax': ['t', i]} for i in ax_ids] \
            if has_md else None
        o_md = [{'o': i} for i in o_ids] if r.random() < .5 and o_ids \
            else None
        if axis == 'sample':
            sp = gen.Spec(o_ids, ax_ids, D, o_md, ax_md)
        else:
            sp = gen.Spec(ax_ids, o_ids, D, ax_md, o_md)
        specs.append(sp)
    tables = [gen.apply_layout(ctx.biom, sp, r.choice(RECIPES), r)
              for sp in specs]
    befores = [snap.snap(t) for t in tables]
    entry = r.choice(['table', 'table', 'biom'])
    desc = {'axis': axis, 'k': k, 'other_mode': other_mode, 'entry': entry,
            'operands': [sp.describe() for sp in specs],
            'layouts': [gen.layout_state(t) for t in tables]}
    # ------------------------------------------------ refusal of overlaps
    if k >= 2 and index % 9 == 0 and flat is None:
        # an id of any earlier operand turns up again in the last one; the
        # refusal belongs to concat itself, so it also holds when the
        # duplicate-id kinds of the error profile are relaxed
        import contextlib
        from biom.err import errstate
        donor = specs[r.randrange(k - 1)]
        dup = r.choice(donor.ids(axis))
        bad = specs[-1].copy()
        bad.ids(axis)[r.randrange(len(bad.ids(axis)))] = dup
        tb = gen.build(ctx.biom, bad, 'dense')
        relaxed = r.random() < .5
        desc['duplicate_profile_relaxed'] = relaxed
        scope = errstate(obsdup='ignore', sampdup='ignore') if relaxed \
            else contextlib.nullcontext()
        if relaxed:
            ctx.count('non_disjoint_under_relaxed_profile')
        try:
            with scope:
                if entry == 'biom':
                    import biom
                    biom.concat(tables[:-1] + [tb], axis=axis)
                else:
                    tables[0].concat(tables[1:-1] + [tb], axis=axis)
        except Exception:
            ctx.count('non_disjoint_refused')
        else:
            raise Violation('C10/non-disjoint-accepted', 'operands share the '
                            'id %r on the concatenation axis; case=%r' %
                            (dup, desc))
        for t, b in zip(tables, befores):
            oracles.unchanged(t, b, 'C10/operand-modified', desc, 'operand')
        ctx.case(dict(desc, refused=True), True)
        return
    if hollow is not None or flat is not None:
        ctx.count('hollow_operand_cases' if flat is None
                  else 'flat_operand_cases')
        desc['hollow_operand' if flat is None else 'flat_operand'] = \
            hollow if flat is None else flat
        try:
            if entry == 'biom':
                import biom
                res = biom.concat(list(tables), axis=axis)
            else:
                res = tables[0].concat(list(tables[1:]), axis=axis)
        except Exception:
            # refusing an operand without the other axis is not a wrong table
            ctx.count('hollow_operand_refused' if flat is None
                      else 'flat_operand_refused')
            for t, b in zip(tables, befores):
                oracles.unchanged(t, b, 'C10/operand-modified', desc,
                                  'operand')
            ctx.case(desc, True)
            return
        ctx.count('hollow_operand_concatenated' if flat is None
                  else 'flat_operand_concatenated')
    elif entry == 'biom':
        import biom
        res = biom.concat(list(tables), axis=axis)
        ctx.count('via_biom_concat')
    else:
        if k == 2 and r.random() < .5:
            res = tables[0].concat(tables[1], axis=axis)
            ctx.count('single_table_arg')
        else:
            others = list(tables[1:])
            res = tables[0].concat(others, axis=axis)
            # the caller's list of operands is an input too: it must come
            # back as it went in, and be reusable for the same call
            if len(others) != k - 1 or any(a is not b for a, b in
                                           zip(others, tables[1:])):
                raise Violation('C10/operand-list-modified', 'the list passed'
                                ' to concat now has %d entries (had %d); '
                                'case=%r' % (len(others), k - 1, desc))
            if index % 3 == 0:
                res2 = tables[0].concat(others, axis=axis)
                if snap.diff(snap.snap(res2), snap.snap(res)):
                    raise Violation('C10/second-call-differs', 'case=%r' %
                                    (desc,))
                ctx.count('operand_list_reused')
        ctx.count('via_table_concat')
    ctx.count('concat_calls')

    def verify(res):
        s = snap.snap(res)
        exp_ax = [i for sp in specs for i in sp.ids(axis)]
        if s.ids(axis) != exp_ax:
            raise Violation('C10/concat-axis-ids', 'result has %r, operands in '
                            'order give %r; case=%r' % (s.ids(axis), exp_ax,
                                                        desc))
        union = set()
        for sp in specs:
            union |= set(sp.ids(inv))
        if set(s.ids(inv)) != union or len(s.ids(inv)) != len(union):
            raise Violation('C10/other-axis-ids', 'result has %r, union is %r; '
                            'case=%r' % (s.ids(inv), sorted(union), desc))
        R = s.D if axis == 'observation' else s.D.T     # rows = concat axis
        row = 0
        for sp in specs:
            V = sp.D if axis == 'observation' else sp.D.T
            md = snap.canon_md(sp.md(axis), len(sp.ids(axis)))
            for a, i in enumerate(sp.ids(axis)):
                for b, o in enumerate(s.ids(inv)):
                    e = V[a, sp.ids(inv).index(o)] if o in sp.ids(inv) else 0.0
                    if not snap.bits_equal([R[row, b]], [e]):
                        raise Violation('C10/cell-value', 'cell (%s %r, %s %r) '
                                        'is %r, expected %r; case=%r' %
                                        (axis, i, inv, o, float(R[row, b]),
                                         float(e), desc))
                if not snap.md_equal([s.md(axis)[row]], [md[a]]):
                    raise Violation('C10/metadata', '%s %r carries %r, its own '
                                    'metadata is %r; case=%r' %
                                    (axis, i, s.md(axis)[row], md[a], desc))
                row += 1
        if vclass in ('count', 'dyadic', 'bigcount'):
            tot = sum(float(sp.D.sum()) for sp in specs)
            if float(s.D.sum()) != tot:
                raise Violation('C10/grand-total', '%r vs %r; case=%r' %
                                (float(s.D.sum()), tot, desc))
        return union
    union = verify(res)
    for t, b in zip(tables, befores):
        oracles.unchanged(t, b, 'C10/operand-modified', desc, 'operand')
    if index % 5 == 2 and hollow is None and flat is None:
        # the same operand objects once more after one of them was changed
        # in place (other-axis ids renamed so that their order turns round,
        # or every value doubled): the second result is built from the
        # operands as they are now
        j = r.randrange(k)
        sp, t = specs[j], tables[j]
        how = r.choice(['rename-other-axis', 'rename-other-axis', 'double'])
        desc['changed_in_place_then_again'] = (j, how)
        if how == 'double':
            t.transform(lambda v, i, m: v * 2, axis=axis, inplace=True)
            sp.D = sp.D * 2
        else:
            old = list(sp.ids(inv))
            rank = {i: q for q, i in enumerate(sorted(old))}
            new_ids = ['r%02d_%s' % (len(old) - 1 - rank[i], i) for i in old]
            t.update_ids(dict(zip(old, new_ids)), axis=inv, inplace=True)
            sp.ids(inv)[:] = new_ids
        desc['operands'] = [x.describe() for x in specs]
        befores = [snap.snap(x) for x in tables]
        if entry == 'biom':
            import biom
            res = biom.concat(list(tables), axis=axis)
        else:
            res = tables[0].concat(list(tables[1:]), axis=axis)
        union = verify(res)
        ctx.count('concatenated_again_after_in_place_change')
    for t, b in zip(tables, befores):
        oracles.unchanged(t, b, 'C10/operand-modified', desc, 'operand')
    # which branch did each operand take (reference-side classification)
    order = sorted(union)
    lacking = False
    for sp in specs:
        if set(sp.ids(inv)) != union:
            ctx.count('branch_padding')
            lacking = True
        elif list(sp.ids(inv)) != order:
            ctx.count('branch_resort')
            lacking = True
        else:
            ctx.count('branch_passthrough')
    ctx.case(desc, bool(k >= 2 and lacking))


def setup(ctx):
    from biom.exception import DisjointIDError
    ctx.DisjointIDError = DisjointIDError


def stress(ctx):
    """Scale: more than 128 / 256 operands."""
    import biom
    r = ctx.rng('stress')
    extra = gen.boundary_sizes(r, 17, 270, 2 if ctx.tier == 'quick' else 8)
    for k in (130, 300) + tuple(extra):
        for axis in ('sample', 'observation'):
            inv = 'observation' if axis == 'sample' else 'sample'
            tabs, specs = [], []
            for j in range(k):
                ax = ['T%04d.a' % j, 'T%04d.b' % j][:r.randint(1, 2)]
                oth = r.sample(['u1', 'u2', 'u3'], r.randint(1, 3))
                V = np.array([[float(r.randint(0, 5)) for _ in oth]
                              for _ in ax])
                md = [{'op': j}] * len(ax) if j % 3 else None
                if axis == 'observation':
                    sp = gen.Spec(ax, oth, V, md, None)
                else:
                    sp = gen.Spec(oth, ax, V.T, None, md)
                specs.append(sp)
                tabs.append(gen.build(ctx.biom, sp, 'dense'))
            for entry in ('biom', 'table'):
                res = biom.concat(list(tabs), axis=axis) if entry == 'biom' \
                    else tabs[0].concat(list(tabs[1:]), axis=axis)
                s_ = snap.snap(res)
                desc = {'scale': '%d operands via %s on %s' % (k, entry,
                                                               axis)}
                exp_ax = [i for sp in specs for i in sp.ids(axis)]
                if s_.ids(axis) != exp_ax:
                    missing = [i for i in exp_ax if i not in s_.ids(axis)]
                    raise Violation('C10/concat-axis-ids', 'scale: ids '
                                    'missing %r; %r' % (missing[:6], desc))
                R = s_.D if axis == 'observation' else s_.D.T
                row = 0
                for sp in specs:
                    V = sp.D if axis == 'observation' else sp.D.T
                    for a in range(len(sp.ids(axis))):
                        for b, o in enumerate(s_.ids(inv)):
                            e = V[a, sp.ids(inv).index(o)] \
                                if o in sp.ids(inv) else 0.0
                            if R[row, b] != e:
                                raise Violation('C10/cell-value', 'scale: '
                                                '%r; %r' % (sp.ids(axis)[a],
                                                            desc))
                        row += 1
                ctx.count('scale_many_operands')
                ctx.case(desc, True)
