"""C05 -- a table stays internally coherent after every sequence of ops.

Monitors: M4 class invariant (icontract) on biom.table.Table evaluated at
every public-method boundary (so also inside compound operations); the
observational coherence oracle through the public API after every step, with
the order of its own reads permuted; a dense reference model that follows
the cheap operations and adopts the observed content after the others.
"""
import copy
import itertools
import os

import numpy as np

from vm import gen, snap
from vm.ctx import Violation
from vm.checks.c08 import expected_filter
from vm.checks.c06 import permuted, transposed
from vm.checks.c13 import expected_transform

ID = 'C05'
TITLE = 'table stays coherent after every op sequence'
LEVEL = 'exploration'
RULE = ('exhaustive part: every sequence of length <= D (D=2 quick, 3 '
        'thorough) over an alphabet of %d concrete operation instances from '
        '6 small start tables (branching by copy.deepcopy, which preserves '
        'the stored layout and lookups); random part: histories of length '
        '4..25 on generated tables with interleaved read accessors and '
        'write->load steps. After every step the coherence oracle runs. A '
        'history is non-trivial if it has >=2 steps of which >=1 changes '
        'ids (filter / rename / reorder / merge / concat / collapse / '
        'partition / subsample); distinct = distinct (start table, op '
        'sequence)')
ASSUMPTIONS = [
    'documented refusals (IndexError on empty tables, TableException, '
    'UnknownIDError, DisjointIDError, ValueError for bad n, ZeroDivision in '
    'norm of cancelling vectors) end a sequence as "refused"',
    'the reference model follows filter / head / remove_empty / sort / '
    'sort_order / transpose / copy / update_ids / add+del metadata / '
    'element-wise transform / pa and adopts the observed content after '
    'norm / rankdata / subsample / collapse / partition / merge / concat / '
    'align_to (their correctness is the subject of C06, C09-C13)',
    'copy.deepcopy is a faithful clone of a table (spot-checked by '
    're-executing sampled sequences from scratch)',
]
ANCHORS = ['Table.filter', 'Table.update_ids', 'Table._index_ids', 'errcheck', 'Table.merge', 'Table.concat', 'Table.collapse', 'Table.partition', 'Table.subsample', 'Table.transform']
REQUIRED = ['iterations_continued_after_a_step', 'shared_text_id_probes', 'histories_under_other_error_profile', 'pairwise_variants_checked', 'tables_built_from_one_matrix_object',
            'tables_built_over_matrix_data', 'steps', 'earlier_tables_rechecked', 'refused_then_checked', 'oracle_runs', 'invariant_evaluations',
            'absent_id_probes', 'stale_id_probes', 'layout_csc_seen',
            'layout_unsorted_seen', 'empty_table_states', 'io_steps',
            'replayed_from_scratch']


class CoherenceBroken(Exception):
    pass


# ------------------------------------------------------------ M4 invariant
_EVALS = [0]


_DEPTH = [0]        # nesting of public Table calls (see install_invariant)


def coherent_internal_state(self):
    if _DEPTH[0] > 1:
        # a public method called by the library itself, e.g. the validation
        # of a table that is being put together and may yet be refused: the
        # state is not observable to a caller here.  The invariant is held
        # at the boundary where callers stand: the outermost call.
        return True
    _EVALS[0] += 1
    d = self.__dict__
    oi = d.get('_obs_index')
    si = d.get('_sample_index')
    if oi is None or si is None:
        return True                      # under construction
    data = d['_data']
    o = d['_observation_ids']
    s = d['_sample_ids']
    if data.shape != (len(o), len(s)):
        return False
    if len(oi) != len(o) or len(si) != len(s):
        return False
    for k, i in enumerate(o):
        if oi.get(i) != k:
            return False
    for k, i in enumerate(s):
        if si.get(i) != k:
            return False
    om = d.get('_observation_metadata')
    sm = d.get('_sample_metadata')
    if om is not None and (not isinstance(om, tuple) or len(om) != len(o)):
        return False
    if sm is not None and (not isinstance(sm, tuple) or len(sm) != len(s)):
        return False
    return True


def install_invariant(ctx):
    try:
        import icontract
    except ImportError:
        from vm import setup as vsetup
        vsetup.ensure_deps()
        import sys
        from vm import common
        if common.DEPS not in sys.path:
            sys.path.append(common.DEPS)
        import icontract
    import biom.table
    icontract.invariant(coherent_internal_state,
                        error=lambda self: CoherenceBroken(
                            'class invariant: shape %r, %d/%d ids, lookups '
                            '%d/%d entries' % (
                                self._data.shape, len(self._observation_ids),
                                len(self._sample_ids),
                                len(self._obs_index or {}),
                                len(self._sample_index or {}))))(
        biom.table.Table)
    # depth bookkeeping around everything icontract wrapped
    import functools
    T = biom.table.Table

    def deep(f):
        @functools.wraps(f)
        def w(*a, **k):
            _DEPTH[0] += 1
            try:
                return f(*a, **k)
            finally:
                _DEPTH[0] -= 1
        return w
    for name, attr in list(vars(T).items()):
        if isinstance(attr, property):
            setattr(T, name, property(
                deep(attr.fget) if attr.fget else None,
                deep(attr.fset) if attr.fset else None, attr.fdel,
                attr.__doc__))
        elif callable(attr) and not isinstance(attr, (classmethod,
                                                      staticmethod, type)):
            if name.startswith('_') and not (name.startswith('__') and
                                             name.endswith('__')):
                continue
            setattr(T, name, deep(attr))


# ----------------------------------------------------------- the oracle
def oracle(ctx, t, r, ever, desc):
    """Observational coherence through the public API only."""
    UnknownIDError = ctx.UnknownIDError
    st = gen.layout_state(t)        # before our own reads convert it
    ctx.cls('layout_state', st)
    if 'unsorted' in st:
        ctx.count('layout_unsorted_seen')
    if st.startswith('csc'):
        ctx.count('layout_csc_seen')
    D = np.array(t.matrix_data.toarray(), dtype=float).reshape(
        t.matrix_data.shape)
    obs = [str(i) for i in t.ids(axis='observation')]
    samp = [str(i) for i in t.ids()]
    ids = {'observation': obs, 'sample': samp}
    n, m = len(obs), len(samp)

    def bad(what, msg):
        raise Violation('C05/incoherent/' + what, '%s; case=%r' % (msg,
                                                                   desc))
    checks = []

    def c_shape():
        if tuple(t.shape) != (n, m) or D.shape != (n, m):
            bad('shape', 'shape %r, %d observation ids, %d sample ids' %
                (t.shape, n, m))
        if t.length('observation') != n or t.length('sample') != m:
            bad('length', 'length() disagrees with ids')
        if t.is_empty() != (n == 0 or m == 0):
            bad('is_empty', 'is_empty()=%r for %dx%d' % (t.is_empty(), n, m))
    checks.append(c_shape)

    def c_unique():
        for ax in ids:
            if len(set(ids[ax])) != len(ids[ax]):
                bad('duplicate-ids', '%s ids %r' % (ax, ids[ax]))
    checks.append(c_unique)

    def c_index():
        for ax in ids:
            for k, i in enumerate(ids[ax]):
                if not t.exists(i, axis=ax):
                    bad('exists', 'exists(%r,%s) False for a listed id' %
                        (i, ax))
                if t.index(i, ax) != k:
                    bad('index', 'index(%r,%s)=%r, position %d' %
                        (i, ax, t.index(i, ax), k))
            absent = ['~fresh~', ids[ax][0] + '~' if ids[ax] else 'x']
            if '' not in ids[ax]:
                absent.append('')
            stale = [i for i in ever[ax] if i not in set(ids[ax])]
            for i in absent + stale:
                if t.exists(i, axis=ax):
                    bad('stale-id-exists', 'exists(%r,%s) True but the id '
                        'is not on the axis %r' % (i, ax, ids[ax]))
                try:
                    t.index(i, ax)
                except UnknownIDError:
                    pass
                else:
                    bad('stale-id-index', 'index(%r,%s) did not raise' %
                        (i, ax))
                # the per-id accessors answer for ids on the axis only
                for nm, f in (('metadata', lambda: t.metadata(i, axis=ax)),
                              ('data', lambda: t.data(i, axis=ax))):
                    try:
                        got = f()
                    except UnknownIDError:
                        continue
                    bad('stale-id-' + nm, '%s(%r,%s) answered %.80r for an '
                        'id that is not on the axis %r' % (nm, i, ax, got,
                                                           ids[ax]))
            ctx.count('absent_id_probes', len(absent))
            ctx.count('stale_id_probes', len(stale))
    checks.append(c_index)

    def c_metadata():
        for ax in ids:
            md = t.metadata(axis=ax)
            if md is None:
                for i in ids[ax][:2]:
                    if t.metadata(i, axis=ax) is not None:
                        bad('metadata', 'metadata(%r) not None although the '
                            'axis has none' % i)
                continue
            if len(md) != len(ids[ax]):
                bad('metadata-length', '%s: %d entries for %d ids' %
                    (ax, len(md), len(ids[ax])))
            for k, i in enumerate(ids[ax]):
                if t.metadata(i, axis=ax) is not md[k]:
                    bad('metadata-entry', 'metadata(%r,%s) is not entry %d' %
                        (i, ax, k))
    checks.append(c_metadata)

    def c_data():
        for ax in ids:
            for k, i in enumerate(ids[ax]):
                ref = D[k, :] if ax == 'observation' else D[:, k]
                v = np.asarray(t.data(i, axis=ax, dense=True)).reshape(-1)
                if not snap.bits_equal(v, ref):
                    bad('data', 'data(%r,%s)=%r, matrix says %r' %
                        (i, ax, v.tolist(), ref.tolist()))
                sv = t.data(i, axis=ax, dense=False)
                sv = np.asarray(sv.toarray()).reshape(-1)
                if not snap.bits_equal(sv, ref):
                    bad('data-sparse', 'sparse data(%r,%s) differs' % (i, ax))
    if n and m:
        checks.append(c_data)

    def c_cells():
        if n * m > 60:
            cells = [(r.randrange(n), r.randrange(m)) for _ in range(40)]
        else:
            cells = [(a, b) for a in range(n) for b in range(m)]
        for a, b in cells:
            v = t.get_value_by_ids(obs[a], samp[b])
            if not snap.bits_equal([v], [D[a, b]]):
                bad('get_value_by_ids', '(%r,%r)=%r, matrix says %r' %
                    (obs[a], samp[b], float(v), float(D[a, b])))
    if n and m:
        checks.append(c_cells)

    def c_iter():
        for ax in ids:
            md = t.metadata(axis=ax)
            got = list(t.iter(axis=ax))
            if len(got) != len(ids[ax]):
                bad('iter-length', '%s: %d items' % (ax, len(got)))
            for k, (v, i, e) in enumerate(got):
                ref = D[k, :] if ax == 'observation' else D[:, k]
                if str(i) != ids[ax][k] or not snap.bits_equal(
                        np.asarray(v).reshape(-1), ref) or \
                        (md is not None and e is not md[k]) or \
                        (md is None and e is not None):
                    bad('iter', '%s item %d misaligned: id %r vec %r' %
                        (ax, k, i, np.asarray(v).tolist()))
            vd = list(t.iter_data(axis=ax))
            for k, v in enumerate(vd):
                ref = D[k, :] if ax == 'observation' else D[:, k]
                if not snap.bits_equal(np.asarray(v).reshape(-1), ref):
                    bad('iter_data', '%s vector %d differs' % (ax, k))
    if n and m:
        checks.append(c_iter)

    def c_pairwise():
        for ax in ids:
            k = len(ids[ax])
            if k > 4:
                continue
            # the documented selections: upper triangle (default), with the
            # diagonal, or every ordered pair; dense or sparse vectors
            combos = [(True, False, True)]
            if r is not None:
                combos.append((r.random() < .5, r.random() < .5,
                               r.random() < .5))
            for tri, diag, dense in combos:
                kw = {} if (tri, diag, dense) == (True, False, True) else \
                    dict(tri=tri, diag=diag, dense=dense)
                pairs = list(t.iter_pairwise(axis=ax, **kw))
                exp = [(a, b) for a in range(k) for b in range(k)
                       if (b > a) or (diag and a == b) or
                       (not tri and b < a)]
                got = [(str(x[1]), str(y[1])) for x, y in pairs]
                if got != [(ids[ax][a], ids[ax][b]) for a, b in exp]:
                    bad('iter_pairwise', '%s pairs %r (tri=%r diag=%r)' %
                        (ax, got, tri, diag))
                for (x, y), (a, b) in zip(pairs, exp):
                    for (v, i, e), kk in ((x, a), (y, b)):
                        ref = D[kk, :] if ax == 'observation' else D[:, kk]
                        if not dense:
                            v = v.toarray()
                        if not snap.bits_equal(np.asarray(v).reshape(-1),
                                               ref):
                            bad('iter_pairwise-vector', '%s %r' % (ax, i))
                if kw:
                    ctx.count('pairwise_variants_checked')
    if n and m:
        checks.append(c_pairwise)

    def c_nonzero():
        got = sorted((str(o), str(s)) for o, s in t.nonzero())
        exp = sorted((obs[a], samp[b]) for a, b in zip(*np.nonzero(D)))
        if got != exp:
            bad('nonzero', 'nonzero() lists %r, matrix has %r' % (got, exp))
    checks.append(c_nonzero)

    def c_sums():
        scale = max(1.0, float(np.abs(D).sum()))
        if not np.allclose(t.sum(), D.sum(), rtol=1e-12, atol=1e-12 * scale):
            bad('sum-whole', '%r vs %r' % (t.sum(), D.sum()))
        if not np.allclose(t.sum('sample'), D.sum(axis=0), rtol=1e-12,
                           atol=1e-12 * scale):
            bad('sum-sample', '%r vs %r' % (t.sum('sample'), D.sum(axis=0)))
        if not np.allclose(t.sum('observation'), D.sum(axis=1), rtol=1e-12,
                           atol=1e-12 * scale):
            bad('sum-observation', '%r vs %r' % (t.sum('observation'),
                                                 D.sum(axis=1)))
    if n and m:
        checks.append(c_sums)

    def c_nnz():
        if t.nnz != int(np.count_nonzero(D)):
            bad('nnz', 'nnz=%r, matrix has %d non-zero cells' %
                (t.nnz, np.count_nonzero(D)))
        ref = np.count_nonzero(D) / float(n * m) if n and m else 0.0
        if abs(t.get_table_density() - ref) > 1e-15:
            bad('density', '%r vs %r' % (t.get_table_density(), ref))
    checks.append(c_nnz)

    def c_indexing():
        # positional indexing: single cells and whole rows / columns
        cells = [(r.randrange(n), r.randrange(m)) for _ in range(12)] \
            if n * m > 12 else [(a, b) for a in range(n) for b in range(m)]
        for a, b in cells:
            v = t[a, b]
            if not snap.bits_equal([v], [D[a, b]]):
                bad('getitem-cell', 't[%d,%d]=%r, matrix says %r' %
                    (a, b, float(v), float(D[a, b])))
        a, b = r.randrange(n), r.randrange(m)
        row = np.asarray(t[a, :].toarray()).reshape(-1)
        col = np.asarray(t[:, b].toarray()).reshape(-1)
        if not snap.bits_equal(row, D[a, :]):
            bad('getitem-row', 't[%d,:]=%r' % (a, row.tolist()))
        if not snap.bits_equal(col, D[:, b]):
            bad('getitem-column', 't[:,%d]=%r' % (b, col.tolist()))
        # negative positions count from the end, as for any sequence
        if not snap.bits_equal([t[-1, -1]], [D[-1, -1]]):
            bad('getitem-cell', 't[-1,-1]=%r, matrix says %r' %
                (float(t[-1, -1]), float(D[-1, -1])))
        a, b = -r.randint(1, n), -r.randint(1, m)
        row = np.asarray(t[a, :].toarray()).reshape(-1)
        col = np.asarray(t[:, b].toarray()).reshape(-1)
        if not snap.bits_equal(row, D[a, :]):
            bad('getitem-row', 't[%d,:]=%r, matrix says %r' %
                (a, row.tolist(), D[a, :].tolist()))
        if not snap.bits_equal(col, D[:, b]):
            bad('getitem-column', 't[:,%d]=%r, matrix says %r' %
                (b, col.tolist(), D[:, b].tolist()))
        if not snap.bits_equal([t[a, b]], [D[a, b]]):
            bad('getitem-cell', 't[%d,%d]=%r, matrix says %r' %
                (a, b, float(t[a, b]), float(D[a, b])))
    if n and m:
        checks.append(c_indexing)

    def c_misc():
        if tuple(t.shape) != (n, m):
            bad('shape', 'shape %r' % (t.shape,))
        if t.length('observation') != n or t.length('sample') != m or \
                t.length() != m:
            bad('length', 'length() says %r/%r' % (t.length('observation'),
                                                  t.length('sample')))
        if t.is_empty() != (n == 0 or m == 0):
            bad('is_empty', 'is_empty()=%r for shape %r' % (t.is_empty(),
                                                           (n, m)))
        if n and m:
            got = [(str(i), np.asarray(v).reshape(-1)) for v, i, _ in t]
            if [g[0] for g in got] != samp or any(
                    not snap.bits_equal(g[1], D[:, k])
                    for k, g in enumerate(got)):
                bad('dunder-iter', 'iterating the table itself gives %r' %
                    ([g[0] for g in got],))
        rp = repr(t)
        if not rp.startswith('%d x %d ' % (n, m)) or \
                ('with %d nonzero' % np.count_nonzero(D)) not in rp:
            bad('repr', 'repr says %r for a %dx%d table with %d non-zero '
                'cells' % (rp, n, m, np.count_nonzero(D)))
        for ax in ids:
            nzc = t.nonzero_counts(ax)
            ref = (D != 0).sum(axis=1 if ax == 'observation' else 0)
            if list(np.asarray(nzc).reshape(-1)) != list(ref):
                bad('nonzero_counts', '%s: %r vs %r' % (ax, list(nzc),
                                                        list(ref)))
    checks.append(c_misc)

    r.shuffle(checks)
    for c in checks:
        c()
    after = np.array(t.matrix_data.toarray(), dtype=float).reshape(
        t.matrix_data.shape)
    if not snap.bits_equal(after, D):
        bad('reads-changed-content', 'matrix changed while being read')
    ctx.count('oracle_runs')
    if n == 0 or m == 0:
        ctx.count('empty_table_states')


# ------------------------------------------------------- operation alphabet
class Refused(Exception):
    pass


ID_CHANGING = {'filter', 'head', 'remove_empty', 'sort', 'sort_order',
               'update_ids', 'subsample', 'collapse', 'partition', 'merge',
               'concat', 'align_to', 'transpose'}


def spec_of(t):
    s = snap.snap(t)
    return gen.Spec(s.obs_ids, s.samp_ids, s.D,
                    None if not any(s.obs_md) else s.obs_md,
                    None if not any(s.samp_md) else s.samp_md, s.type)


def _axis_ids(t, axis):
    return [str(i) for i in t.ids(axis=axis)]


def make_ops():
    """name -> (family, function(ctx, t, m, r) -> (t', m' or None))
    m' None means: adopt the observed content."""
    ops = {}

    def op(name, fam):
        def deco(f):
            ops[name] = (fam, f)
            return f
        return deco

    for axis in ('sample', 'observation'):
        a = axis[0]

        @op('filter-keep-first-%s-inplace' % a, 'filter')
        def f(ctx, t, m, r, axis=axis):
            ids = m.ids(axis)
            keep = ids[:1]
            t.filter(list(keep), axis=axis, inplace=True)
            return t, expected_filter(m, keep, axis, False)

        @op('filter-drop-last-%s-invert' % a, 'filter')
        def f(ctx, t, m, r, axis=axis):
            ids = m.ids(axis)
            drop = ids[-1:]
            t2 = t.filter(set(drop), axis=axis, invert=True, inplace=False)
            return t2, expected_filter(m, drop, axis, True)

        @op('filter-pred-sum-gt2-%s-inplace' % a, 'filter')
        def f(ctx, t, m, r, axis=axis):
            ids = m.ids(axis)
            keep = [i for i in ids if m.vec(i, axis).sum() > 2]
            t.filter(lambda v, i, md: v.sum() > 2, axis=axis, inplace=True)
            return t, expected_filter(m, keep, axis, False)

        @op('filter-nothing-left-%s' % a, 'filter')
        def f(ctx, t, m, r, axis=axis):
            t2 = t.filter([], axis=axis, inplace=False)
            return t2, expected_filter(m, [], axis, False)

        @op('sort-%s' % a, 'sort')
        def f(ctx, t, m, r, axis=axis):
            t2 = t.sort(axis=axis)
            return t2, None

        @op('sort_order-reverse-%s' % a, 'sort_order')
        def f(ctx, t, m, r, axis=axis):
            order = m.ids(axis)[::-1]
            return t.sort_order(list(order), axis=axis), permuted(m, order,
                                                                  axis)

        @op('sort_order-rotate-%s' % a, 'sort_order')
        def f(ctx, t, m, r, axis=axis):
            ids = m.ids(axis)
            order = ids[1:] + ids[:1]
            return t.sort_order(np.array(order), axis=axis), permuted(
                m, order, axis)

        @op('update_ids-lengthen-%s-inplace' % a, 'update_ids')
        def f(ctx, t, m, r, axis=axis):
            ids = m.ids(axis)
            mp = {i: i + '_longer_name' for i in ids}
            t.update_ids(mp, axis=axis, inplace=True)
            m2 = m.copy()
            setattr(m2, 'obs_ids' if axis == 'observation' else 'samp_ids',
                    [mp[i] for i in ids])
            return t, m2

        @op('update_ids-shorten-%s' % a, 'update_ids')
        def f(ctx, t, m, r, axis=axis):
            ids = m.ids(axis)
            mp = {i: '%s%d' % (a, k) for k, i in enumerate(ids)}
            t2 = t.update_ids(mp, axis=axis, inplace=False)
            m2 = m.copy()
            setattr(m2, 'obs_ids' if axis == 'observation' else 'samp_ids',
                    [mp[i] for i in ids])
            return t2, m2

        @op('update_ids-swap-%s-inplace' % a, 'update_ids')
        def f(ctx, t, m, r, axis=axis):
            ids = m.ids(axis)
            if len(ids) < 2:
                raise Refused()
            mp = {ids[0]: ids[1], ids[1]: ids[0]}
            t.update_ids(mp, axis=axis, strict=False, inplace=True)
            m2 = m.copy()
            setattr(m2, 'obs_ids' if axis == 'observation' else 'samp_ids',
                    [mp.get(i, i) for i in ids])
            return t, m2

        @op('update_ids-partial-%s' % a, 'update_ids')
        def f(ctx, t, m, r, axis=axis):
            ids = m.ids(axis)
            mp = {ids[-1]: ids[-1] + '#'}
            t2 = t.update_ids(mp, axis=axis, strict=False, inplace=False)
            m2 = m.copy()
            setattr(m2, 'obs_ids' if axis == 'observation' else 'samp_ids',
                    [mp.get(i, i) for i in ids])
            return t2, m2

        @op('add_metadata-partial-%s' % a, 'add_metadata')
        def f(ctx, t, m, r, axis=axis):
            ids = m.ids(axis)
            mp = {i: {'added': k} for k, i in enumerate(ids[1:] + ['ghost'])}
            t.add_metadata(copy.deepcopy(mp), axis=axis)
            return t, None

        @op('transform-x2-%s-inplace' % a, 'transform')
        def f(ctx, t, m, r, axis=axis):
            t.transform(lambda v, i, md: v * 2, axis=axis, inplace=True)
            return t, expected_transform(m, lambda v, i, md: v * 2, axis)

        @op('transform-zero-small-%s' % a, 'transform')
        def f(ctx, t, m, r, axis=axis):
            g = lambda v, i, md: np.where(np.abs(v) > 2, v, 0.)   # noqa
            return t.transform(g, axis=axis, inplace=False), \
                expected_transform(m, g, axis)

        @op('norm-%s' % a, 'norm')
        def f(ctx, t, m, r, axis=axis):
            if np.any(m.D < 0):
                raise Refused()
            return t.norm(axis=axis, inplace=False), None

        @op('rankdata-%s-inplace' % a, 'rankdata')
        def f(ctx, t, m, r, axis=axis):
            t.rankdata(axis=axis, inplace=True)
            return t, None

        @op('subsample-n2-%s' % a, 'subsample')
        def f(ctx, t, m, r, axis=axis):
            if np.any(m.D < 0) or np.any(m.D != np.floor(m.D)) or \
                    (m.D.size and m.D.max() > 1e6):
                raise Refused()
            return t.subsample(2, axis=axis, seed=7), None

        @op('subsample-byid-n1-%s' % a, 'subsample')
        def f(ctx, t, m, r, axis=axis):
            return t.subsample(1, axis=axis, by_id=True, seed=3), None

        @op('collapse-%s' % a, 'collapse')
        def f(ctx, t, m, r, axis=axis):
            return t.collapse(lambda i, md: 'g%d' % (len(i) % 2), norm=False,
                              axis=axis), None

        @op('partition-first-part-%s' % a, 'partition')
        def f(ctx, t, m, r, axis=axis):
            parts = list(t.partition(lambda i, md: sum(map(ord, i)) % 2,
                                     axis=axis))
            if not parts:
                raise Refused()
            return parts[0][1], None

        @op('concat-renamed-copy-%s' % a, 'concat')
        def f(ctx, t, m, r, axis=axis):
            o = t.update_ids({i: 'cc_' + i for i in m.ids(axis)}, axis=axis,
                             inplace=False)
            return t.concat([o], axis=axis), None

        @op('update_ids-collide-retained-%s-inplace' % a, 'refusal')
        def f(ctx, t, m, r, axis=axis):
            ids = m.ids(axis)
            if len(ids) < 2:
                raise Refused()
            # a partial renaming onto an id that is retained: must be refused
            t.update_ids({ids[0]: ids[1]}, axis=axis, strict=False,
                         inplace=True)
            raise Violation('C05/duplicate-ids-accepted', 'update_ids mapped '
                            '%r onto the retained id %r and was accepted' %
                            (ids[0], ids[1]))

        @op('filter-unknown-id-%s-inplace' % a, 'refusal')
        def f(ctx, t, m, r, axis=axis):
            ids = m.ids(axis)
            t.filter(ids[:1] + ['~no such id~'], axis=axis, inplace=True)
            raise Violation('C05/unknown-id-accepted', 'in-place filter '
                            'naming an unknown id was accepted')

        @op('sort_order-unknown-id-%s' % a, 'refusal')
        def f(ctx, t, m, r, axis=axis):
            ids = m.ids(axis)
            t.sort_order(ids[:-1] + ['~no such id~'], axis=axis)
            raise Violation('C05/unknown-id-accepted', 'sort_order naming an '
                            'unknown id was accepted')

        @op('touch-%s' % a, 'read')
        def f(ctx, t, m, r, axis=axis):
            ids = m.ids(axis)
            if ids:
                t.data(ids[-1], axis=axis)
            return t, m

    @op('remove_empty-inplace', 'remove_empty')
    def f(ctx, t, m, r):
        t.remove_empty(inplace=True)
        e = expected_filter(m, [i for k, i in enumerate(m.samp_ids)
                                if np.any(m.D[:, k] != 0)], 'sample', False)
        e = expected_filter(e, [i for k, i in enumerate(e.obs_ids)
                                if np.any(e.D[k, :] != 0)], 'observation',
                            False)
        return t, e

    @op('head-1-2', 'head')
    def f(ctx, t, m, r):
        t2 = t.head(1, 2)
        e = expected_filter(m, m.obs_ids[:1], 'observation', False)
        return t2, expected_filter(e, m.samp_ids[:2], 'sample', False)

    @op('transpose', 'transpose')
    def f(ctx, t, m, r):
        t2 = t.transpose()
        m2 = transposed(m)
        return t2, m2

    @op('copy', 'copy')
    def f(ctx, t, m, r):
        return t.copy(), m.copy()

    @op('pa-inplace', 'pa')
    def f(ctx, t, m, r):
        t.pa(inplace=True)
        m2 = m.copy()
        m2.D = (m.D != 0).astype(float)
        return t, m2

    @op('del_metadata-all', 'del_metadata')
    def f(ctx, t, m, r):
        t.del_metadata()
        m2 = m.copy()
        m2.obs_md = m2.samp_md = None
        return t, m2

    @op('merge-self-copy', 'merge')
    def f(ctx, t, m, r):
        return t.merge(t.copy()), None

    @op('merge-renamed-copy', 'merge')
    def f(ctx, t, m, r):
        o = t.update_ids({i: 'mm_' + i for i in m.samp_ids}, inplace=False)
        return t.merge(o), None

    @op('align_to-reversed', 'align_to')
    def f(ctx, t, m, r):
        o = t.sort_order(m.samp_ids[::-1]).sort_order(
            m.obs_ids[::-1], axis='observation')
        return t.align_to(o, axis='both'), None

    @op('nnz-read', 'read')
    def f(ctx, t, m, r):
        t.nnz
        return t, m

    @op('io-json-roundtrip', 'io')
    def f(ctx, t, m, r):
        import json
        if t.is_empty():
            raise Refused()
        t2 = ctx.biom.Table.from_json(json.loads(t.to_json('vm')))
        ctx.count('io_steps')
        return t2, None

    @op('io-hdf5-roundtrip', 'io')
    def f(ctx, t, m, r):
        from vm.checks._hdf5 import in_c01_domain
        if in_c01_domain(snap.snap(t)) is not None:
            raise Refused()
        p = ctx.path('c05_%d.biom' % os.getpid())
        try:
            ctx.biom.save_table(t, p)
            t2 = ctx.biom.load_table(p)
        finally:
            if os.path.exists(p):
                os.remove(p)
        ctx.count('io_steps')
        return t2, None
    return ops


OPS = make_ops()
OP_NAMES = sorted(OPS)
RULE = RULE % len(OP_NAMES)


def start_tables(ctx):
    specs = []
    r = ctx.rng('start')
    for (n, m, md, neg) in [(2, 2, False, False), (2, 3, True, False),
                            (3, 2, True, True), (3, 3, False, False),
                            (1, 3, True, False), (3, 1, False, True)]:
        D = np.array([[float((i * 3 + j * 2) % 5) for j in range(m)]
                      for i in range(n)])
        if neg:
            D[0, 0] = -3.0
        obs = ['o%d' % i if i != 1 else 'obs_one' for i in range(n)]
        samp = ['s%d' % j if j != 0 else 'sample_zero' for j in range(m)]
        omd = [{'k': 'o%d' % i, 'taxonomy': ['a', 'b%d' % i]}
               for i in range(n)] if md else None
        smd = [{'k': 's%d' % j} for j in range(m)] if md else None
        specs.append(gen.Spec(obs, samp, D, omd, smd, 'OTU table'))
    return specs


def plan(tier):
    depth = 2 if tier == 'quick' else 3
    nexh = 6 * len(OP_NAMES)
    nrand = 1000 if tier == 'quick' else 40000
    return {'cases': nexh + nrand, 'nexh': nexh, 'nrand': nrand,
            'depth': depth, 'shards': 16, 'min_nontrivial': 300,
            'timeout': 1200 if tier == 'quick' else 5400}


REFUSALS = None


def light_oracle(ctx, t, desc, what):
    """Cheap coherence check for tables that are still alive from earlier
    in the history (siblings / ancestors of the current table)."""
    try:
        D = t.matrix_data
        obs = [str(i) for i in t.ids(axis='observation')]
        samp = [str(i) for i in t.ids()]
        if tuple(D.shape) != (len(obs), len(samp)):
            raise Violation('C05/earlier-table-incoherent/shape', '%s: shape '
                            '%r for %d/%d ids; case=%r' % (what, D.shape,
                                                           len(obs),
                                                           len(samp), desc))
        for ax, ids in (('observation', obs), ('sample', samp)):
            if len(set(ids)) != len(ids):
                raise Violation('C05/earlier-table-incoherent/duplicate-ids',
                                '%s: %s ids %r; case=%r' % (what, ax, ids,
                                                            desc))
            for k, i in enumerate(ids):
                if not t.exists(i, axis=ax) or t.index(i, ax) != k:
                    raise Violation('C05/earlier-table-incoherent/lookup',
                                    '%s: %s id %r at position %d: exists=%r; '
                                    'case=%r' % (what, ax, i, k,
                                                 t.exists(i, axis=ax), desc))
            md = t.metadata(axis=ax)
            if md is not None and len(md) != len(ids):
                raise Violation('C05/earlier-table-incoherent/metadata',
                                '%s; case=%r' % (what, desc))
    except CoherenceBroken as e:
        raise Violation('C05/earlier-table-incoherent/class-invariant',
                        '%s: %s; case=%r' % (what, e, desc))
    ctx.count('earlier_tables_rechecked')


class Ended(Refused):
    pass


def apply_step(ctx, name, t, m, r, ever, hist):
    """Returns (t', m') or raises Refused. Runs the oracle."""
    fam, f = OPS[name]
    desc = {'start': hist['start'], 'ops': hist['ops'] + [name]}
    try:
        t2, m2 = f(ctx, t, m, r)
    except Refused:
        raise
    except REFUSALS as e:
        ctx.count('refused_steps')
        ctx.cls('refusal', '%s:%s' % (fam, type(e).__name__))
        # a refused operation is still a step of the history: the table it
        # was called on must be coherent, and what it was before
        try:
            oracle(ctx, t, r, ever, dict(desc, refused=type(e).__name__))
        except CoherenceBroken as ee:
            raise Violation('C05/class-invariant/after-refused-' + fam,
                            '%s after %s was refused (%s); case=%r' %
                            (ee, name, type(e).__name__, desc))
        d = snap.diff(snap.snap(t), snap.snap_spec(m),
                      fields=('obs_ids', 'samp_ids', 'D', 'obs_md',
                              'samp_md'))
        if d and hist.get('error_profile') and isinstance(
                e, ctx.TableException):
            # under a profile that raises for a kind the default ignores, an
            # in-place operation is carried out and *then* reported: the
            # table moved on (coherent: checked above), the model did not.
            # Nothing says such a table must be unchanged; the history ends.
            ctx.count('in_place_step_reported_by_profile')
            raise Ended()
        if d:
            raise Violation('C05/refused-op-changed-table/' + fam, '%s was '
                            'refused (%s) but left the table changed: %s; '
                            'case=%r' % (name, type(e).__name__,
                                         '; '.join(d), desc))
        ctx.count('refused_then_checked')
        raise Refused()
    except CoherenceBroken as e:
        raise Violation('C05/class-invariant/' + fam, '%s during %s; '
                        'case=%r' % (e, name, desc))
    ctx.count('steps')
    ctx.cls('op_family', fam)
    try:
        for ax in ('observation', 'sample'):
            ever[ax].update(str(i) for i in t2.ids(axis=ax))
        oracle(ctx, t2, r, ever, desc)
    except CoherenceBroken as e:
        raise Violation('C05/class-invariant/' + fam, '%s while reading the '
                        'result of %s; case=%r' % (e, name, desc))
    if m2 is None:
        m2 = spec_of(t2)
    else:
        fields = ('obs_ids', 'samp_ids', 'D', 'obs_md', 'samp_md')
        d = snap.diff(snap.snap(t2), snap.snap_spec(m2), fields=fields)
        if d:
            raise Violation('C05/model-divergence/' + fam, 'after %s the '
                            'table is coherent but not what the reference '
                            'model predicts: %s; case=%r' %
                            (name, '; '.join(d), desc))
    return t2, m2


def dfs(ctx, t, m, ever, hist, depth, r):
    if depth == 0:
        return
    for name in OP_NAMES:
        tt = copy.deepcopy(t)
        ev = {k: set(v) for k, v in ever.items()}
        try:
            t2, m2 = apply_step(ctx, name, tt, m.copy(), r, ev, hist)
        except Refused:
            continue
        h2 = {'start': hist['start'], 'ops': hist['ops'] + [name]}
        fams = [OPS[o][0] for o in h2['ops']]
        ctx.case(h2, len(h2['ops']) >= 2 and any(f in ID_CHANGING
                                                 for f in fams))
        dfs(ctx, t2, m2, ev, h2, depth - 1, r)


def from_scratch(ctx, spec, ops, r):
    t = gen.build(ctx.biom, spec, 'dense')
    m = spec.copy()
    ever = {'observation': set(spec.obs_ids), 'sample': set(spec.samp_ids)}
    hist = {'start': spec.describe(), 'ops': []}
    for name in ops:
        t, m = apply_step(ctx, name, t, m, r, ever, hist)
        hist['ops'].append(name)
    return snap.snap(t)


def run_case(ctx, index):
    p = plan(ctx.tier)
    r = ctx.rng(index)
    if index < p['nexh']:
        spec = start_tables(ctx)[index // len(OP_NAMES)]
        first = OP_NAMES[index % len(OP_NAMES)]
        t = gen.build(ctx.biom, spec, 'dense')
        ever = {'observation': set(spec.obs_ids),
                'sample': set(spec.samp_ids)}
        hist = {'start': spec.describe(), 'ops': []}
        oracle(ctx, t, r, ever, hist)
        try:
            t2, m2 = apply_step(ctx, first, t, spec.copy(), r, ever, hist)
        except Refused:
            return
        h2 = {'start': hist['start'], 'ops': [first]}
        ctx.case(h2, False)
        dfs(ctx, t2, m2, ever, h2, p['depth'] - 1, r)
        # deepcopy-branching is faithful: re-execute one sequence from scratch
        seq = [first] + [r.choice(OP_NAMES) for _ in range(p['depth'] - 1)]
        try:
            a = from_scratch(ctx, spec, seq, ctx.rng(index, 'a'))
            tt = gen.build(ctx.biom, spec, 'dense')
            mm = spec.copy()
            ev = {'observation': set(spec.obs_ids),
                  'sample': set(spec.samp_ids)}
            hh = {'start': spec.describe(), 'ops': []}
            for name in seq:
                tt = copy.deepcopy(tt)
                tt, mm = apply_step(ctx, name, tt, mm, ctx.rng(index, 'a'),
                                    ev, hh)
                hh['ops'].append(name)
            if 'subsample' not in ' '.join(seq) and snap.diff(
                    a, snap.snap(tt)):
                raise Violation('C05/harness-deepcopy-unfaithful', 'sequence '
                                '%r differs between deepcopy branching and a '
                                'fresh execution' % (seq,))
            ctx.count('replayed_from_scratch')
        except Refused:
            ctx.count('replayed_from_scratch')
        return
    # ------------------------------------------------------- random
    spec = gen.gen_spec(r, max_n=6, max_m=6, value_classes=['count',
                                                            'dyadic', 'neg',
                                                            'frac'],
                        md_kinds=['none', 'text', 'int', 'taxonomy'])
    shared = None
    permanent = []
    if r.random() < .3 and spec.D.size:
        # the caller builds two tables from one and the same matrix object
        # (and keeps using that object): each table owns its content
        import scipy.sparse as sp
        kind = r.choice(['csr', 'csc', 'coo', 'ndarray', 'csr-int'])
        shared = {'csr': sp.csr_matrix, 'csc': sp.csc_matrix,
                  'coo': sp.coo_matrix, 'ndarray': np.array,
                  'csr-int': lambda D: sp.csr_matrix(D.astype(np.int64))
                  if np.all(D == np.floor(D)) else sp.csr_matrix(D)}[kind](
                      spec.D)
        mk = lambda: ctx.biom.Table(  # noqa: E731
            shared, list(spec.obs_ids), list(spec.samp_ids),
            copy.deepcopy(spec.obs_md), copy.deepcopy(spec.samp_md),
            type=spec.type)
        sib = mk()
        t = mk()
        permanent = [(snap.snap(sib), sib, 0)]
        ctx.count('tables_built_from_one_matrix_object')
    else:
        lay = r.choice(gen.LAYOUTS)
        if any(i.isdigit() for i in spec.obs_ids + spec.samp_ids) and \
                r.random() < .3:
            lay = 'ids-partly-numbers'
            ctx.count('start_tables_with_ids_partly_given_as_numbers')
        elif r.random() < .1:
            lay = 'ids-object-dtype'
            ctx.count('start_tables_with_object_dtype_ids')
        t = gen.apply_layout(ctx.biom, spec, lay, r)
    m = spec.copy()
    ever = {'observation': set(spec.obs_ids), 'sample': set(spec.samp_ids)}
    hist = {'start': spec.describe(), 'ops': []}
    if shared is not None:
        hist['start'] = dict(hist['start'], built='two tables from one %s '
                             'object' % kind)
    if shared is None:
        oracle(ctx, t, r, ever, hist)   # (reading may re-lay-out the matrix)
    L = r.randint(4, 25)
    alive = []          # (snapshot at the time, table) of earlier tables
    # some histories run under a non-default error profile: results that
    # would be empty are then refused (or warned about), nothing else differs
    import contextlib
    import warnings
    from biom.err import errstate
    prof = r.choice([None] * 8 + [{'empty': 'raise'}, {'empty': 'warn'}])
    stack = contextlib.ExitStack()
    if prof:
        hist['error_profile'] = prof
        ctx.count('histories_under_other_error_profile')
        stack.enter_context(warnings.catch_warnings())
        warnings.simplefilter('ignore')
        stack.enter_context(errstate(**prof))
    with stack:
        _random_history(ctx, r, t, m, ever, hist, L, alive, permanent,
                        shared, spec)


def _random_history(ctx, r, t, m, ever, hist, L, alive, permanent, shared,
                    spec):
    for _ in range(L):
        name = r.choice(OP_NAMES)
        if r.random() < .12 and len(permanent) < 4:
            # relabelling idiom: a second table over this table's matrix
            try:
                rel = ctx.biom.Table(
                    t.matrix_data,
                    ['r%d' % i for i in range(t.shape[0])],
                    ['c%d' % i for i in range(t.shape[1])])
                permanent.append((snap.snap(rel), rel, len(hist['ops'])))
                ctx.count('tables_built_over_matrix_data')
            except REFUSALS:
                pass
        prev = t
        prev_snap = snap.snap(t)
        # an iteration that is under way when the step happens: what it
        # still yields afterwards is the table as it is then (provided the
        # step left the iterated axis as it was)
        under_way = None
        if r.random() < .15 and min(t.shape) > 0 and \
                max(t.shape) >= 2:
            ax_it = r.choice(['sample', 'observation'])
            if t.length(ax_it) >= 2:
                it = t.iter(dense=True, axis=ax_it)
                next(it)
                under_way = (ax_it, it,
                             [str(i) for i in t.ids(axis=ax_it)])
        try:
            t, m = apply_step(ctx, name, t, m, r, ever, hist)
        except Ended:
            break
        except Refused:
            continue
        if under_way is not None and t is prev and \
                [str(i) for i in t.ids(axis=under_way[0])] == under_way[2]:
            ax_it, it, ids_it = under_way
            Dn = snap.snap(t).D
            rest = list(it)
            for k, (v, i, md_) in enumerate(rest, 1):
                ref = Dn[k, :] if ax_it == 'observation' else Dn[:, k]
                if str(i) != ids_it[k] or not snap.bits_equal(
                        np.asarray(v).reshape(-1), ref):
                    raise Violation('C05/incoherent/iteration-under-way',
                                    'an iteration over %s started before '
                                    '%s yields %r for %r afterwards, the '
                                    'table holds %r; case=%r' %
                                    (ax_it, name, np.asarray(v).tolist(), i,
                                     ref.tolist(), dict(hist)))
            ctx.count('iterations_continued_after_a_step')
        hist['ops'].append(name)
        if t is not prev:
            alive.append((prev_snap, prev, len(hist['ops'])))
            alive = alive[-3:]
        # tables produced earlier are still tables: they must stay coherent
        # and keep their content whatever is done to their descendants
        for sn, old, at in permanent + alive:
            light_oracle(ctx, old, dict(hist), 'table before step %d' % at)
            d = snap.diff(snap.snap(old), sn)
            if d:
                raise Violation('C05/earlier-table-changed', 'the table '
                                'before step %d changed after a later step: '
                                '%s; case=%r' % (at, '; '.join(d),
                                                 dict(hist)))
        if shared is not None:
            now = shared.toarray() if hasattr(shared, 'toarray') else shared
            if now.shape != spec.D.shape or not np.array_equal(
                    np.asarray(now, dtype=float), spec.D):
                raise Violation('C05/callers-matrix-changed', 'the matrix '
                                'object the tables were built from changed '
                                'after step %r; case=%r' % (name, dict(hist)))
    fams = [OPS[o][0] for o in hist['ops']]
    ctx.case(dict(hist), len(hist['ops']) >= 2 and any(f in ID_CHANGING
                                                       for f in fams))


def setup(ctx):
    global REFUSALS
    from biom.exception import (TableException, UnknownIDError,
                                DisjointIDError)
    ctx.UnknownIDError = UnknownIDError
    ctx.TableException = TableException
    REFUSALS = (TableException, UnknownIDError, DisjointIDError, IndexError,
                ValueError, ZeroDivisionError, KeyError)
    install_invariant(ctx)


def finish(ctx):
    ctx.count('invariant_evaluations', _EVALS[0])


def summarize(counters, extra, tier):
    p = plan(tier)
    return {'exhaustive_scope': 'all sequences of length <= %d over %d '
            'operation instances from 6 start tables' % (p['depth'],
                                                          len(OP_NAMES)),
            'operation_instances': OP_NAMES}


def stress(ctx):
    """Fixed probes.  Id arrays whose memory is the same text cut
    differently ('ab','cd','ef','gh' / 'abcd','efgh' / 'a'..'h' /
    'abcdefgh'), used one after the other in one process on either axis:
    anything remembered about one id array must not answer for another."""
    r = ctx.rng('stress')
    base = ['abcdefgh', 'éèüñøßÆç', 'S1S2S3S4']
    for text in base:
        cuts = [[text[i:i + w] for i in range(0, 8, w)] for w in (2, 4, 1, 8)]
        cuts = [c for c in cuts if len(set(c)) == len(c)]
        orders = [cuts, cuts[::-1]]
        for order in orders:
            tabs = []
            for ids in order:
                for axis in ('observation', 'sample'):
                    n = len(ids)
                    V = np.arange(n * 2, dtype=float).reshape(n, 2) + 1
                    spec = gen.Spec(ids if axis == 'observation' else
                                    ['x', 'y'], ['x', 'y'] if axis ==
                                    'observation' else ids,
                                    V if axis == 'observation' else V.T,
                                    [{'k': i} for i in ids] if axis ==
                                    'observation' else None,
                                    None if axis == 'observation' else
                                    [{'k': i} for i in ids])
                    t = gen.build(ctx.biom, spec, 'dense')
                    tabs.append((t, spec))
            # every table answers for its own ids, also after the others
            # were built and queried
            for t, spec in tabs + tabs[::-1]:
                ever = {'observation': set(spec.obs_ids),
                        'sample': set(spec.samp_ids)}
                desc = {'probe': 'id arrays sharing their text',
                        'table': spec.describe()}
                oracle(ctx, t, r, ever, desc)
                d = snap.diff(snap.snap(t), snap.snap_spec(spec))
                if d:
                    raise Violation('C05/incoherent/probe', '%s; case=%r' %
                                    ('; '.join(d), desc))
                ctx.count('shared_text_id_probes')
            ctx.case({'probe': 'id arrays sharing their text', 'text': text,
                      'order': [len(c) for c in order]}, True)


def san_indices(tier):
    p = plan(tier)
    return list(range(p['nexh'], p['nexh'] + (150 if tier == 'quick' else
                                              3000)))


def extra_lane(tier, seed):
    """Suite-under-monitors lane (DESIGN.md section 7): the repository's own
    tests with the class invariant installed.  Returns (violations, info,
    inconclusive_reasons)."""
    import json
    import subprocess
    import tempfile
    from vm import common
    fd, out = tempfile.mkstemp(prefix='c05-suite-', suffix='.json',
                               dir=common.BUILD)
    os.close(fd)
    env = dict(os.environ)
    env['PYTHONPATH'] = os.pathsep.join([common.VERIF, common.DEPS,
                                         env.get('PYTHONPATH', '')])
    env['VM_PLUGIN_OUT'] = out
    env['PYTHONDONTWRITEBYTECODE'] = '1'
    # the repository's tests leave their temporary files behind: give them a
    # directory of their own, which goes when the lane is done
    import shutil
    scratch = tempfile.mkdtemp(prefix='c05-suite-tmp-', dir=common.BUILD)
    env['TMPDIR'] = scratch
    try:
        d = None
        tail = ''
        for attempt in (1, 2):
            try:
                pr = subprocess.run([common.PY, '-m', 'pytest', '-q', '-p',
                                     'no:cacheprovider', '-p',
                                     'vm.pytest_plugin', 'biom'],
                                    cwd=common.REPO, env=env,
                                    capture_output=True, text=True,
                                    timeout=1500)
            except subprocess.TimeoutExpired:
                return [], {'status': 'watchdog'}, \
                    ['suite lane hit the watchdog']
            try:
                d = json.load(open(out))
                break
            except Exception:
                tail = (pr.stdout[-600:] + ' | ' + pr.stderr[-600:])
        if d is None:
            return [], {'status': 'no-output', 'pytest_tail': tail}, \
                ['suite lane wrote no result (twice): ' + tail[-300:]]
    finally:
        if os.path.exists(out):
            os.remove(out)
        shutil.rmtree(scratch, ignore_errors=True)
    viol = []
    excluded = []
    other = []
    for f in d['fired']:
        if f['kind'] != 'invariant':
            other.append(f['node'])
        elif f['excluded']:
            excluded.append({'node': f['node'], 'why': f['why']})
        else:
            viol.append({'sig': 'C05/suite-under-invariant/' +
                         f['node'].split('::')[-1],
                         'message': 'class invariant fired inside %s, whose '
                         'source does not write private state: %s' %
                         (f['node'], f['excerpt'])})
    info = {'tests_collected': d['tests_collected'],
            'invariant_evaluations': d['invariant_evaluations'],
            'fired_and_excluded_by_rule': excluded,
            'tests_failing_for_other_reasons': other}
    inc = [] if d['invariant_evaluations'] > 0 else \
        ['suite lane: the invariant was never evaluated']
    return viol, info, inc
