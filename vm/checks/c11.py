"""C11 -- partition is an exact split; collapse conserves what it aggregates.

Monitors: tap on the labelling function / one-to-many generator (M3), dense
reference model computed from the definition with multiplicities.
"""
import numpy as np

from vm import gen, snap, oracles
from vm.ctx import Violation

ID = 'C11'
TITLE = 'partition exact split; collapse conserves'
LEVEL = 'exploration'
RULE = ('integer / dyadic tables x axis x {partition by function (id hash '
        'incl. label 0/False/"", metadata value, constant, injective, '
        'list-valued, None), partition by dict in both forms, collapse '
        'one-to-one (norm, min_group_size 1..3, collapsed metadata, custom '
        'collapse_f), collapse one-to-many (0..3 possibly repeated groups per '
        'vector, add / divide)} x 8 layout recipes. Non-trivial: >=2 groups, '
        'or a group with >=2 members, or a vector in >=2 groups; distinct = '
        'distinct (table, op, labelling, flags)')
ASSUMPTIONS = [
    'values are integers or dyadic fractions: sums and a single division by '
    'a small count are exact; divide mode compared at rtol 1e-12',
    'with remove_empty the part loses its all-zero vectors on both axes '
    '(what the option does); without it the other axis is complete',
    'collapse labels are strings (they become ids)',
]
ANCHORS = ['Table.partition', 'Table.collapse', 'Table._conv_to_self_type']
REQUIRED = ['one_to_many_incomplete_pathways', 'incomplete_pathway_refused_when_strict', 'labeller_reads_the_table', 'collapse_f_forms', 'partition_calls', 'partition_dict_id2grp', 'partition_dict_grp2ids',
            'partition_ignore_none', 'partition_remove_empty',
            'partition_falsy_labels', 'collapse_one_to_one',
            'collapse_norm', 'collapse_min_group_size',
            'collapse_one_to_many_add', 'collapse_one_to_many_divide',
            'one_to_many_repeated_group', 'labeller_calls_checked',
            'totals_conserved_checked']
RECIPES = ['as-built', 'touch-sample', 'touch-obs', 'sort-unsort-samp',
           'sort-unsort-obs', 'csr-unsorted', 'coo-input',
           'filtered-keep-all']


def plan(tier):
    n = 4000 if tier == 'quick' else 120000
    return {'cases': n, 'shards': 16, 'min_nontrivial': 500,
            'timeout': 900 if tier == 'quick' else 3600}


def mk_spec(r):
    n, m = r.randint(1, 6), r.randint(1, 6)
    vc = r.choice(['int', 'dyadic', 'neg'])
    D = np.zeros((n, m))
    dens = r.choice([.3, .6, 1.0])
    for i in range(n):
        for j in range(m):
            if r.random() < dens:
                D[i, j] = {'int': lambda: float(r.randint(1, 9)),
                           'dyadic': lambda: r.randint(1, 64) / 8.0,
                           'neg': lambda: float(r.randint(-5, 5))}[vc]()
    if r.random() < .3 and n > 1:
        D[r.randrange(n), :] = 0
    if r.random() < .3 and m > 1:
        D[:, r.randrange(m)] = 0
    if vc == 'neg' and r.random() < .5:
        # a vector that is not empty although it sums to zero
        if m > 1 and r.random() < .5:
            i = r.randrange(n)
            D[i, :] = 0
            D[i, 0], D[i, 1] = 1.5, -1.5
        elif n > 1:
            j = r.randrange(m)
            D[:, j] = 0
            D[0, j], D[1, j] = -2.0, 2.0
    idc = r.choice(['ascii', 'natsort', 'numeric', 'latin1', 'punct', 'one'])
    obs = gen.gen_ids(r, n, idc, 'O')
    samp = gen.gen_ids(r, m, idc, 'S')
    omd = [{'grp': r.choice(['a', 'b', 'c']), 'n': r.randint(0, 2),
            'path': [r.choice(['p1', 'p2']), r.choice(['q1', 'q2', 'q3'])]}
           for _ in obs] if r.random() < .7 else None
    smd = [{'grp': r.choice(['a', 'b', 'c']), 'n': r.randint(0, 2),
            'path': [r.choice(['p1', 'p2']), r.choice(['q1', 'q2', 'q3'])]}
           for _ in samp] if r.random() < .7 else None
    return gen.Spec(obs, samp, D, omd, smd, r.choice(gen.TABLE_TYPES +
                                                     [None]))


def hashable(x):
    return tuple(x) if isinstance(x, list) else x


def labellers(r, ids, md):
    def h(i):
        return sum(map(ord, i))
    out = [
        ('id-hash-int', lambda i, m: h(i) % 3),
        ('id-hash-bool', lambda i, m: h(i) % 2 == 0),
        ('id-hash-str-empty', lambda i, m: ['', 'x', 'y'][h(i) % 3]),
        ('constant', lambda i, m: 'all'),
        ('injective', lambda i, m: 'g_' + i),
        ('list-valued', lambda i, m: ['L', str(h(i) % 2)]),
        ('some-none', lambda i, m: None if h(i) % 3 == 0 else 'k%d' %
         (h(i) % 2)),
        ('empty-list', lambda i, m: [] if h(i) % 2 else ['z']),
    ]
    if md is not None:
        out += [('md-grp', lambda i, m: m['grp']),
                ('md-int', lambda i, m: m['n'])]
    return r.choice(out)


def view(spec, axis):
    return spec.D if axis == 'observation' else spec.D.T


def sub_spec(spec, axis, keep_idx):
    out = spec.copy()
    ids = spec.ids(axis)
    md = spec.md(axis)
    if axis == 'observation':
        out.obs_ids = [ids[k] for k in keep_idx]
        out.D = spec.D[keep_idx, :].reshape(len(keep_idx),
                                            len(spec.samp_ids))
        out.obs_md = None if md is None else [md[k] for k in keep_idx]
    else:
        out.samp_ids = [ids[k] for k in keep_idx]
        out.D = spec.D[:, keep_idx].reshape(len(spec.obs_ids),
                                            len(keep_idx))
        out.samp_md = None if md is None else [md[k] for k in keep_idx]
    return out


def drop_empty(spec):
    s = spec
    keep = [k for k in range(len(s.samp_ids)) if np.any(s.D[:, k] != 0)]
    s = sub_spec(s, 'sample', keep)
    keep = [k for k in range(len(s.obs_ids)) if np.any(s.D[k, :] != 0)]
    return sub_spec(s, 'observation', keep)


def probing(ctx, r, spec, t, axis, f, desc):
    """A quarter of the labelling functions look at the table they are
    labelling while they are being called: a vector of the *other* axis, a
    sum along it, a cell.  Reading is all they do; the answer is the same."""
    if r.random() >= .25:
        return f
    other = 'observation' if axis == 'sample' else 'sample'
    oids = spec.ids(other)
    if not oids:
        return f
    kind = r.choice(['other-axis-vector', 'other-axis-sum', 'cell',
                     'same-axis-vector'])
    desc['labeller_reads_the_table'] = kind
    ctx.count('labeller_reads_the_table')

    def g(i, m):
        if kind == 'other-axis-vector':
            t.data(oids[len(str(i)) % len(oids)], axis=other, dense=True)
        elif kind == 'other-axis-sum':
            t.sum(axis=other)
        elif kind == 'same-axis-vector':
            t.data(i, axis=axis, dense=False)
        else:
            o = oids[0]
            t.get_value_by_ids(*((i, o) if axis == 'observation' else (o, i)))
        return f(i, m)
    return g


def run_partition(ctx, r, spec, t, axis, desc):
    ids = spec.ids(axis)
    md = spec.md(axis)
    how = r.choice(['function', 'function', 'dict-id2grp', 'dict-grp2ids'])
    remove_empty = r.random() < .3
    ignore_none = r.random() < .4
    desc.update(op='partition', how=how, remove_empty=remove_empty,
                ignore_none=ignore_none)
    calls = []
    if how == 'function':
        name, lab = labellers(r, ids, md)
        desc['labeller'] = name

        def f(i, m):
            calls.append((str(i), None if m is None else dict(m)))
            return lab(str(i), m)
        f = probing(ctx, r, spec, t, axis, f, desc)
        labels = [lab(i, None if md is None else md[k])
                  for k, i in enumerate(ids)]
    else:
        groups = ['g1', 'g2', 'g3']
        assign = {i: r.choice(groups) for i in ids if r.random() < .8}
        if not assign:
            assign = {ids[0]: 'g1'}
        if how == 'dict-id2grp':
            f = dict(assign)
            f['not-in-table'] = 'g9'
            ctx.count('partition_dict_id2grp')
        else:
            f = {}
            for i, g in assign.items():
                f.setdefault(g, []).append(i)
            if r.random() < .5:
                f = {g: tuple(v) for g, v in f.items()}
            ctx.count('partition_dict_grp2ids')
        labels = [assign.get(i) for i in ids]
        desc['mapping'] = {str(k): v for k, v in f.items()}
    if any((l is not None and not l and l != []) or l == [] for l in labels):
        ctx.count('partition_falsy_labels')
    parts = list(t.partition(f, axis=axis, remove_empty=remove_empty,
                             ignore_none=ignore_none))
    ctx.count('partition_calls')
    if ignore_none:
        ctx.count('partition_ignore_none')
    if remove_empty:
        ctx.count('partition_remove_empty')
    if how == 'function':
        if [c[0] for c in calls] != list(ids):
            raise Violation('C11/labeller-call-sequence', 'called for %r, '
                            'ids are %r; case=%r' % ([c[0] for c in calls],
                                                     ids, desc))
        for k, (i, m) in enumerate(calls):
            e = {} if md is None else snap.canon_md([md[k]], 1)[0]
            g = {} if m is None else snap.canon_md([m], 1)[0]
            if not snap.md_equal([g], [e]):
                raise Violation('C11/labeller-metadata', '%r got %r, own is '
                                '%r; case=%r' % (i, g, e, desc))
            ctx.count('labeller_calls_checked')
    exp = {}
    order = []
    for k, l in enumerate(labels):
        if ignore_none and l is None:
            continue
        key = hashable(l)
        if key not in exp:
            exp[key] = []
            order.append(key)
        exp[key].append(k)
    got_labels = [p for p, _ in parts]
    # the order in which parts are yielded is not promised
    if sorted(map(repr, got_labels)) != sorted(map(repr, order)):
        raise Violation('C11/partition-labels', 'labels %r, expected %r; '
                        'case=%r' % (got_labels, order, desc))
    seen = []
    for (lab_, part) in parts:
        e = sub_spec(spec, axis, exp[lab_])
        if remove_empty:
            e = drop_empty(e)
        oracles.check_against_spec(part, e, 'C11/partition-part', dict(
            desc, label=repr(lab_)))
        seen += [i for i in snap.snap(part).ids(axis)]
    if not remove_empty:
        expected_all = [ids[k] for key in order for k in exp[key]]
        if sorted(seen) != sorted(expected_all) or \
                len(set(seen)) != len(seen):
            raise Violation('C11/partition-cover', 'parts hold %r, expected '
                            'each of %r once; case=%r' % (seen, expected_all,
                                                          desc))
    return len(order) >= 2 or any(len(v) >= 2 for v in exp.values())


def run_collapse(ctx, r, spec, t, axis, desc):
    ids = spec.ids(axis)
    md = spec.md(axis)
    inv = 'sample' if axis == 'observation' else 'observation'
    V = view(spec, axis)

    def h(i):
        return sum(map(ord, i))
    name, lab = r.choice([
        ('hash3', lambda i, m: 'g%d' % (h(i) % 3)),
        ('hash2', lambda i, m: 'grp_%d_é' % (h(i) % 2)),
        ('constant', lambda i, m: 'all'),
        ('injective', lambda i, m: 'c_' + i)] + (
        [('md-grp', lambda i, m: m['grp'])] if md is not None else []))
    norm = r.random() < .5
    mgs = r.choice([1, 1, 2, 3])
    icm = r.random() < .7
    custom = r.random() < .25
    desc.update(op='collapse', labeller=name, norm=norm, min_group_size=mgs,
                include_collapsed_metadata=icm, custom_collapse_f=custom)
    labels = [lab(i, None if md is None else md[k])
              for k, i in enumerate(ids)]
    groups = {}
    order = []
    for k, l in enumerate(labels):
        if l not in groups:
            groups[l] = []
            order.append(l)
        groups[l].append(k)
    kept = [g for g in order if len(groups[g]) >= mgs]
    kw = {}
    if custom:
        # "dense or sparse vector": the same numbers in several forms
        import scipy.sparse as sp_
        form = r.choice(['ndarray', 'ndarray', 'csr-row', 'csc-row',
                         'coo-row', 'ndarray-2d'])
        desc['collapse_f_returns'] = form
        conv = {'ndarray': lambda v: v,
                'ndarray-2d': lambda v: v.reshape(1, -1),
                'csr-row': lambda v: sp_.csr_matrix(v.reshape(1, -1)),
                'csc-row': lambda v: sp_.csc_matrix(v.reshape(1, -1)),
                'coo-row': lambda v: sp_.coo_matrix(v.reshape(1, -1))}[form]
        kw['collapse_f'] = lambda tt, ax: conv(np.asarray(tt.sum(ax),
                                                          dtype=float) * 4)
        ctx.count('collapse_f_forms')
    if r.random() < .3:
        kw['strict'] = r.random() < .5      # irrelevant for labellers that
        desc['strict'] = kw['strict']       # always answer
    try:
        res = t.collapse(probing(ctx, r, spec, t, axis,
                                 lambda i, m: lab(str(i), m), desc), norm=norm,
                         min_group_size=mgs, include_collapsed_metadata=icm,
                         axis=axis, **kw)
    except ctx.TableException:
        if not kept:
            ctx.skip('collapse: no group reaches min_group_size (refused)')
            return None
        raise
    if not kept:
        ctx.skip('collapse: no group reaches min_group_size (empty result)')
        return None
    ctx.count('collapse_one_to_one')
    if norm:
        ctx.count('collapse_norm')
    if mgs > 1:
        ctx.count('collapse_min_group_size')
    rows = []
    for g in kept:
        v = V[groups[g], :].sum(axis=0) * (4 if custom else 1)
        if norm:
            v = v / len(groups[g])
        rows.append(v)
    R = np.array(rows).reshape(len(kept), len(spec.ids(inv)))
    cmd = [{'collapsed_ids': [ids[k] for k in groups[g]]} for g in kept] \
        if icm else None
    if axis == 'observation':
        exp = gen.Spec(kept, spec.samp_ids, R, cmd, spec.samp_md, spec.type)
    else:
        exp = gen.Spec(spec.obs_ids, kept, R.T, spec.obs_md, cmd, spec.type)
    s = snap.snap(res)
    # collapsed_ids compared as multisets
    for entry in s.md(axis):
        if 'collapsed_ids' in entry:
            entry['collapsed_ids'] = sorted(entry['collapsed_ids'])
    if icm:
        for e in (exp.obs_md if axis == 'observation' else exp.samp_md):
            e['collapsed_ids'] = sorted(e['collapsed_ids'])
    # (a user function's sums may be added in another order than here)
    d = snap.diff(s, snap.snap_spec(exp), rtol=1e-12 if custom else None)
    if d:
        raise Violation('C11/collapse-result', '%s; case=%r' %
                        ('; '.join(d), desc))
    if not norm and mgs == 1 and not custom:
        a = s.D.sum(axis=0 if axis == 'observation' else 1)
        b = spec.D.sum(axis=0 if axis == 'observation' else 1)
        if not snap.bits_equal(a, b):
            raise Violation('C11/collapse-totals', '%s totals %r vs %r; '
                            'case=%r' % (inv, a.tolist(), b.tolist(), desc))
        ctx.count('totals_conserved_checked')
    return len(kept) >= 2 or any(len(groups[g]) >= 2 for g in kept)


def run_one_to_many(ctx, r, spec, t, axis, desc):
    ids = spec.ids(axis)
    md = spec.md(axis)
    inv = 'sample' if axis == 'observation' else 'observation'
    V = view(spec, axis)
    mode = r.choice(['add', 'divide'])
    gnames = ['pw_a', 'pw_b', 'pw_c', 'pw_é']
    assign = {}
    for i in ids:
        k = r.choice([0, 1, 1, 2, 3])
        gs = [r.choice(gnames) for _ in range(k)]
        if k >= 2 and r.random() < .4:
            gs[1] = gs[0]          # the same group named twice
        assign[i] = gs
    if not any(assign.values()):
        assign[ids[0]] = ['pw_a']
    if any(len(g) != len(set(g)) for g in assign.values()):
        ctx.count('one_to_many_repeated_group')
    calls = []

    def f(i, m):
        calls.append(str(i))
        for n, g in enumerate(assign[str(i)]):
            yield (['path', g, str(n)], g)
    incomplete = None
    if r.random() < .2:
        # pathways kept as lists in a lookup, some of them incomplete (too
        # short to name their group); the labeller is an iterator that goes
        # on after a failed step (map), the documented `strict` decides:
        # refuse, or leave the incomplete ones out
        incomplete = {}
        for i in ids:
            raw = [['path', g] for g in assign[i]]
            for _ in range(r.choice([0, 1, 1, 2])):
                raw.insert(r.randrange(len(raw) + 1), ['short'])
            incomplete[i] = raw
        if not any(len(p) < 2 for raw in incomplete.values() for p in raw):
            incomplete[ids[0]].insert(0, ['short'])

        def f(i, m):                                    # noqa: F811
            calls.append(str(i))
            return map(lambda p: (p, p[1]), incomplete[str(i)])
        desc['pathway_lists'] = incomplete
        ctx.count('one_to_many_incomplete_pathways')
    f = probing(ctx, r, spec, t, axis, f, desc)
    key = r.choice(['Path', 'KEGG_Pathways'])
    desc.update(op='collapse-one-to-many', mode=mode, assign=assign,
                md_key=key)
    # `strict` only concerns labellers that fail part-way; with a labeller
    # that always answers it must not change anything
    strict = r.choice([None, None, True, False])
    if incomplete is not None:
        strict = r.choice([False, False, True])
    kw = {} if strict is None else {'strict': strict}
    desc['strict'] = strict
    if incomplete is not None and strict:
        try:
            t.collapse(f, norm=False, one_to_many=True,
                       one_to_many_mode=mode, one_to_many_md_key=key,
                       axis=axis, **kw)
        except IndexError:
            ctx.count('incomplete_pathway_refused_when_strict')
            return True
        raise Violation('C11/incomplete-pathway-accepted', 'strict=True and '
                        'an incomplete pathway; case=%r' % (desc,))
    res = t.collapse(f, norm=False, one_to_many=True, one_to_many_mode=mode,
                     one_to_many_md_key=key, axis=axis, **kw)
    ctx.count('collapse_one_to_many_' + mode)
    groups = sorted({g for gs in assign.values() for g in gs})
    R = np.zeros((len(groups), V.shape[1]))
    for k, i in enumerate(ids):
        gs = assign[i]
        for g in gs:
            contrib = V[k, :] if mode == 'add' else V[k, :] / len(gs)
            R[groups.index(g), :] += contrib
    s = snap.snap(res)
    if s.ids(axis) != groups:
        raise Violation('C11/one-to-many-groups', 'result %s ids %r, groups '
                        'are %r; case=%r' % (axis, s.ids(axis), groups, desc))
    if s.ids(inv) != spec.ids(inv):
        raise Violation('C11/one-to-many-other-axis', 'case=%r' % (desc,))
    G = s.D if axis == 'observation' else s.D.T
    atol = 1e-12 * (float(np.abs(V).max()) if V.size else 0.0)
    ok = snap.bits_equal(G, R) if mode == 'add' else \
        np.allclose(G, R, rtol=1e-12, atol=atol)
    if not ok:
        raise Violation('C11/one-to-many-values/' + mode, 'result %r, '
                        'definition gives %r; case=%r' % (G.tolist(),
                                                          R.tolist(), desc))
    if mode == 'divide':
        mapped = [k for k, i in enumerate(ids) if assign[i]]
        a = G.sum(axis=0)
        b = V[mapped, :].sum(axis=0)
        if not np.allclose(a, b, rtol=1e-12, atol=atol * len(ids)):
            raise Violation('C11/one-to-many-totals', '%r vs %r; case=%r' %
                            (a.tolist(), b.tolist(), desc))
        ctx.count('totals_conserved_checked')
    for k, g in enumerate(groups):
        e = s.md(axis)[k]
        if set(e) != {key} or e[key][1] != g:
            raise Violation('C11/one-to-many-metadata', 'group %r carries %r;'
                            ' case=%r' % (g, e, desc))
    return len(groups) >= 2 or any(len(g) >= 2 for g in assign.values())


def run_case(ctx, index):
    r = ctx.rng(index)
    spec = mk_spec(r)
    recipe = r.choice(RECIPES)
    axis = r.choice(['sample', 'observation'])
    t = gen.apply_layout(ctx.biom, spec, recipe, r)
    desc = {'table': spec.describe(), 'recipe': recipe,
            'layout': gen.layout_state(t), 'axis': axis}
    before = snap.snap(t)
    kind = ['partition', 'collapse', 'one-to-many'][index % 3]
    if kind == 'one-to-many' and spec.md(axis) is None:
        # the one-to-many mode is defined on axes that carry metadata
        other = 'sample' if axis == 'observation' else 'observation'
        if spec.md(other) is not None:
            axis = other
            desc['axis'] = axis
        else:
            kind = 'collapse'
    if kind == 'partition':
        nt = run_partition(ctx, r, spec, t, axis, desc)
    elif kind == 'collapse':
        nt = run_collapse(ctx, r, spec, t, axis, desc)
    else:
        nt = run_one_to_many(ctx, r, spec, t, axis, desc)
    if nt is None:
        return
    oracles.unchanged(t, before, 'C11/receiver-modified', desc)
    ctx.case(desc, bool(nt))


def setup(ctx):
    from biom.exception import TableException
    ctx.TableException = TableException


def stress(ctx):
    """Scale: one-to-many collapse with more than 65536 contributions, and a
    partition / one-to-one collapse of a 300-id axis."""
    r = ctx.rng('stress')
    n, m = 230, 150
    rng = np.random.default_rng(r.randrange(2 ** 32))
    D = rng.integers(1, 5, size=(n, m)).astype(float)
    obs = ['o%03d' % i for i in range(n)]
    samp = ['s%03d' % j for j in range(m)]
    omd = [{'k': i % 7} for i in range(n)]
    t = ctx.biom.Table(D, obs, samp, omd, None)
    for mode in ('add', 'divide'):
        def f(i, md):
            a = int(i[1:])
            yield (['p', 'g%d' % (a % 5)], 'g%d' % (a % 5))
            yield (['p', 'h%d' % (a % 3)], 'h%d' % (a % 3))
        res = t.collapse(f, norm=False, one_to_many=True,
                         one_to_many_mode=mode, axis='observation')
        groups = sorted({'g%d' % k for k in range(5)} |
                        {'h%d' % k for k in range(3)})
        R = np.zeros((len(groups), m))
        for a in range(n):
            for g in ('g%d' % (a % 5), 'h%d' % (a % 3)):
                R[groups.index(g)] += D[a] if mode == 'add' else D[a] / 2
        s_ = snap.snap(res)
        desc = {'scale': 'one-to-many %s, %d contributions' % (mode,
                                                              2 * n * m)}
        if s_.obs_ids != groups or not np.allclose(s_.D, R, rtol=1e-12):
            raise Violation('C11/one-to-many-values/' + mode, 'scale: result '
                            'total %r, definition %r; %r' %
                            (float(s_.D.sum()), float(R.sum()), desc))
        ctx.count('scale_cases')
        ctx.case(desc, True)
    parts = dict(t.partition(lambda i, md: md['k'], axis='observation'))
    if sorted(parts) != list(range(7)) or sum(
            p.length('observation') for p in parts.values()) != n:
        raise Violation('C11/partition-cover', 'scale: parts %r' %
                        sorted(parts))
    for k, p in parts.items():
        idx = [a for a in range(n) if a % 7 == k]
        if [str(i) for i in p.ids(axis='observation')] != \
                [obs[a] for a in idx] or not np.array_equal(
                    p.matrix_data.toarray(), D[idx]):
            raise Violation('C11/partition-part', 'scale: part %r' % k)
    ctx.case({'scale': 'partition of %d ids' % n}, True)
