"""C07 -- non-in-place operations never modify inputs; in-place is equivalent.

Monitors: deep snapshots (M1) of receiver and table-valued arguments before /
after every call, identity of the returned object, in-place-vs-copy
equivalence on a deepcopy (layout preserving), an isolation battery of
in-place edits applied to the *result*, and fault injection (M9: callback
raising at its k-th call).
"""
import copy

import numpy as np

from vm import gen, snap, oracles
from vm.ctx import Violation

ID = 'C07'
TITLE = 'non-in-place ops never modify inputs; in-place equivalent'
LEVEL = 'exploration'
RULE = ('generated tables x 13 layout recipes x operation (7 inplace-flag '
        'ops, 11 new-table ops) x arguments x axis; each case runs the '
        'non-in-place call, the in-place call on a deepcopy, then an '
        'isolation battery of in-place edits on the result. Non-trivial: the '
        'result differs from the receiver (so "unchanged" is not vacuous) or '
        'the isolation battery changed the result; distinct = distinct '
        '(table, layout state, op, args)')
ASSUMPTIONS = [
    'copy.deepcopy(table) is a faithful, layout-preserving clone (used to '
    'branch; Table.copy() would launder the layout)',
    'sharing memory is not itself a violation, only an observable change is',
    'objects returned by accessors are not mutated by the harness',
]
ANCHORS = ['Table.copy', 'Table.filter', 'Table.transform', 'Table.subsample', 'Table._get_sparse_data']
REQUIRED = ['receivers_with_group_metadata', 'axes_with_partly_empty_metadata', 'refused_inplace_twins_checked',
            'update_ids_collision_requests', 'degenerate_argument_calls', 'noninplace_calls', 'inplace_equivalence_checked',
            'isolation_batteries', 'fault_injections', 'layout_csc_seen',
            'layout_unsorted_seen', 'args_tables_checked',
            'op_filter', 'op_transform', 'op_norm', 'op_pa', 'op_rankdata',
            'op_remove_empty', 'op_update_ids', 'op_align_to_dataframe', 'op_sort', 'op_sort_order',
            'op_transpose', 'op_copy', 'op_head', 'op_subsample',
            'op_partition', 'op_collapse', 'op_merge', 'op_concat',
            'op_align_to']

INPLACE_OPS = ['filter', 'transform', 'norm', 'pa', 'rankdata',
               'remove_empty', 'update_ids']
NEW_OPS = ['sort', 'sort_order', 'transpose', 'copy', 'head', 'subsample',
           'partition', 'collapse', 'merge', 'concat', 'align_to',
           # not in the property's list, but documented to return a filtered
           # *table* next to the filtered frame: the same promise
           'align_to_dataframe']


def plan(tier):
    n = 5000 if tier == 'quick' else 150000
    return {'cases': n, 'shards': 16, 'min_nontrivial': 500,
            'timeout': 900 if tier == 'quick' else 3600}


class Boom(Exception):
    pass


def note_layout(ctx, t):
    st = gen.layout_state(t)
    ctx.cls('layout_state', st)
    if 'unsorted' in st:
        ctx.count('layout_unsorted_seen')
    if st.startswith('csc'):
        ctx.count('layout_csc_seen')
    return st


def battery(ctx, res, r):
    """In-place edits applied to a result table."""
    if res.is_empty():
        return False
    changed = False
    for axis in ('sample', 'observation'):
        res.transform(lambda v, i, m: v * 2 + 1, axis=axis, inplace=True)
    res.pa(inplace=True)
    changed = True
    for axis in ('sample', 'observation'):
        # group metadata: whatever the result carries is replaced, and an
        # entry of its own added
        gm = res.group_metadata(axis=axis)
        upd_g = {k: ('str', 'rewritten') for k in (gm or {})}
        upd_g['added to the result'] = ('str', 'x')
        res.add_group_metadata(upd_g, axis=axis)
        ids = list(res.ids(axis=axis))
        md = res.metadata(axis=axis)
        keys = sorted({k for e in (md or ()) for k in e}, key=str)
        upd = {i: {'__new__': 'x'} for i in ids}
        if keys:
            for i in ids:
                upd[i][keys[0]] = 'overwritten'
        res.add_metadata(upd, axis=axis)
        if keys:
            res.del_metadata(keys=[keys[-1]], axis=axis)
        # first a partial renaming (one id, strict=False) that fits the
        # current id width, then a full one that fits it (names rotated),
        # then one that needs a wider array
        one = str(ids[r.randrange(len(ids))])
        alt = one[:-1] + ('~' if not one.endswith('~') else '^')
        if alt not in set(map(str, ids)):
            res.update_ids({one: alt}, axis=axis, strict=False, inplace=True)
            ids = list(res.ids(axis=axis))
        if len(ids) > 1:
            res.update_ids({i: ids[(k + 1) % len(ids)]
                            for k, i in enumerate(ids)}, axis=axis,
                           inplace=True)
            ids = list(res.ids(axis=axis))
        res.update_ids({i: 'ren_' + str(k) for k, i in enumerate(ids)},
                       axis=axis, inplace=True)
    ids = list(res.ids())
    if len(ids) > 1:
        res.filter(ids[1:], axis='sample', inplace=True)
    ids = list(res.ids(axis='observation'))
    if len(ids) > 1:
        res.filter(ids[:1], axis='observation', invert=True, inplace=True)
    return changed


def second_table(ctx, r, spec, kind):
    """A table-valued argument related to spec."""
    if kind == 'permuted':
        o = list(spec.obs_ids)
        s = list(spec.samp_ids)
        r.shuffle(o)
        r.shuffle(s)
        sp = gen.Spec(o, s, [[spec.D[spec.obs_ids.index(a),
                                     spec.samp_ids.index(b)] + 1
                              for b in s] for a in o],
                      None if spec.obs_md is None else
                      [copy.deepcopy(spec.obs_md[spec.obs_ids.index(a)])
                       for a in o],
                      None if spec.samp_md is None else
                      [copy.deepcopy(spec.samp_md[spec.samp_ids.index(b)])
                       for b in s], spec.type)
        return sp
    if kind == 'disjoint-samples':
        s = ['zz_' + i for i in spec.samp_ids]
        return gen.Spec(spec.obs_ids, s, spec.D + 1,
                        copy.deepcopy(spec.obs_md),
                        copy.deepcopy(spec.samp_md), spec.type)
    if kind == 'disjoint-obs':
        o = ['zz_' + i for i in spec.obs_ids]
        return gen.Spec(o, spec.samp_ids, spec.D + 1,
                        copy.deepcopy(spec.obs_md),
                        copy.deepcopy(spec.samp_md), spec.type)
    raise ValueError(kind)


def build_call(ctx, r, spec, op, axis):
    """Returns (callable(t, inplace) -> result or list of results,
                args description, list of argument tables,
                raises_ok exception types)"""
    ids = spec.ids(axis)
    args = {}
    tables = []
    # now and then the arguments ask for nothing to change: the answer is
    # still a table of its own
    deg = r.random() < .15
    if deg and op in ('filter', 'transform', 'update_ids', 'sort_order',
                      'head', 'concat', 'align_to', 'subsample', 'partition',
                      'collapse'):
        ctx.count('degenerate_argument_calls')
        args = {'degenerate': True}
        if op == 'filter':
            if r.random() < .5:
                return (lambda t, ip: t.filter(list(ids), axis=axis,
                                               inplace=ip)), args, tables
            return (lambda t, ip: t.filter(lambda v, i, m: True, axis=axis,
                                           inplace=ip)), args, tables
        if op == 'transform':
            return (lambda t, ip: t.transform(lambda v, i, m: v, axis=axis,
                                              inplace=ip)), args, tables
        if op == 'update_ids':
            if r.random() < .5:
                return (lambda t, ip: t.update_ids({}, axis=axis,
                                                   strict=False,
                                                   inplace=ip)), args, tables
            return (lambda t, ip: t.update_ids({i: i for i in ids},
                                               axis=axis, inplace=ip)), \
                args, tables
        if op == 'sort_order':
            return (lambda t, ip: t.sort_order(list(ids), axis=axis)), args, \
                tables
        if op == 'head':
            return (lambda t, ip: t.head(len(spec.obs_ids) + 2,
                                         len(spec.samp_ids) + 2)), args, tables
        if op == 'concat':
            return (lambda t, ip: t.concat([], axis=axis)), args, tables
        if op == 'align_to':
            other = gen.build(ctx.biom, spec, 'dense')
            tables.append(other)
            ax = r.choice(['sample', 'observation', 'both', 'detect'])
            return (lambda t, ip: t.align_to(other, axis=ax)), args, tables
        if op == 'subsample':
            return (lambda t, ip: t.subsample(len(ids) + 1, axis=axis,
                                              by_id=True, seed=3)), args, \
                tables
        if op == 'partition':
            return (lambda t, ip: [p for _, p in t.partition(
                lambda i, m: 'all', axis=axis)]), args, tables
        if op == 'collapse':
            return (lambda t, ip: t.collapse(
                lambda i, m: 'own_' + i, norm=False, axis=axis)), args, tables
    if op == 'filter':
        if r.random() < .5:
            keep = r.sample(ids, r.randint(0, len(ids)))
            inv = r.random() < .3
            args = {'keep': keep, 'invert': inv}
            return (lambda t, ip: t.filter(list(keep), axis=axis, invert=inv,
                                           inplace=ip)), args, tables
        thr = r.choice([0, 1, 3])
        args = {'pred': 'sum>%d' % thr}
        return (lambda t, ip: t.filter(lambda v, i, m: v.sum() > thr,
                                       axis=axis, inplace=ip)), args, tables
    if op == 'transform':
        name, f = r.choice([
            ('x2', lambda v, i, m: v * 2),
            ('plus1', lambda v, i, m: v + 1),
            ('zero-small', lambda v, i, m: np.where(v > 2, v, 0.)),
            ('inplace-writer', _writes_in_place),
            ('metadata-writer', _writes_metadata)])
        args = {'f': name}
        return (lambda t, ip: t.transform(f, axis=axis, inplace=ip)), args, \
            tables
    if op == 'norm':
        return (lambda t, ip: t.norm(axis=axis, inplace=ip)), args, tables
    if op == 'pa':
        return (lambda t, ip: t.pa(inplace=ip)), args, tables
    if op == 'rankdata':
        meth = r.choice(['average', 'min', 'max', 'dense'])
        args = {'method': meth}
        return (lambda t, ip: t.rankdata(axis=axis, inplace=ip,
                                         method=meth)), args, tables
    if op == 'remove_empty':
        ax = r.choice(['whole', 'sample', 'observation'])
        args = {'axis': ax}
        return (lambda t, ip: t.remove_empty(axis=ax, inplace=ip)), args, \
            tables
    if op == 'update_ids' and len(ids) >= 2 and r.random() < .25:
        # a partial renaming onto a name that another id keeps: cannot be
        # carried out
        a, b = r.sample(ids, 2)
        args = {'map': 'collides-with-kept-id', 'from': a, 'to': b}
        ctx.count('update_ids_collision_requests')
        return (lambda t, ip: t.update_ids({a: b}, axis=axis, strict=False,
                                           inplace=ip)), args, tables
    if op == 'update_ids':
        m = {i: 'new_%d_%s' % (k, i) for k, i in enumerate(ids)}
        args = {'map': 'lengthen'}
        return (lambda t, ip: t.update_ids(dict(m), axis=axis,
                                           inplace=ip)), args, tables
    if op == 'sort':
        return (lambda t, ip: t.sort(axis=axis)), args, tables
    if op == 'sort_order':
        order = list(ids)
        r.shuffle(order)
        args = {'order': order}
        return (lambda t, ip: t.sort_order(list(order), axis=axis)), args, \
            tables
    if op == 'transpose':
        return (lambda t, ip: t.transpose()), args, tables
    if op == 'copy':
        return (lambda t, ip: t.copy()), args, tables
    if op == 'head':
        n, m = r.randint(1, 4), r.randint(1, 4)
        args = {'n': n, 'm': m}
        return (lambda t, ip: t.head(n, m)), args, tables
    if op == 'subsample':
        n = r.randint(1, 6)
        by_id = r.random() < .3
        wr = (not by_id) and r.random() < .3
        seed = r.randrange(100)
        args = {'n': n, 'by_id': by_id, 'with_replacement': wr, 'seed': seed}
        return (lambda t, ip: t.subsample(n, axis=axis, by_id=by_id,
                                          with_replacement=wr, seed=seed)), \
            args, tables
    if op == 'partition':
        re_ = r.random() < .5
        args = {'by': 'ord-sum%2', 'remove_empty': re_}
        return (lambda t, ip: [p for _, p in t.partition(
            lambda i, m: sum(map(ord, i)) % 2, axis=axis,
            remove_empty=re_)]), args, tables
    if op == 'collapse':
        norm = r.random() < .5
        args = {'by': 'ord-sum%2', 'norm': norm}
        return (lambda t, ip: t.collapse(
            lambda i, m: 'g%d' % (sum(map(ord, i)) % 2), norm=norm,
            axis=axis)), args, tables
    if op == 'merge':
        kind = r.choice(['permuted', 'disjoint-samples', 'disjoint-obs'])
        osp = second_table(ctx, r, spec, kind)
        other = gen.apply_layout(ctx.biom, osp, r.choice(gen.LAYOUTS[:6]), r)
        tables.append(other)
        how = r.choice([('union', 'union'), ('intersection', 'union'),
                        ('union', 'intersection')])
        fs = r.choice(['default', 'none'])
        args = {'other': kind, 'how': how, 'md_f': fs}
        kw = {} if fs == 'default' else {'sample_metadata_f': None,
                                         'observation_metadata_f': None}
        return (lambda t, ip: t.merge(other, sample=how[0],
                                      observation=how[1], **kw)), args, tables
    if op == 'concat':
        kind = 'disjoint-samples' if axis == 'sample' else 'disjoint-obs'
        osp = second_table(ctx, r, spec, kind)
        # make the other axis differ in order / membership
        if r.random() < .6:
            inv = 'observation' if axis == 'sample' else 'sample'
            oids = osp.ids(inv)
            if len(oids) > 1:
                keep = oids[1:] if r.random() < .5 else oids[::-1]
                from vm.checks.c08 import expected_filter
                from vm.checks.c06 import permuted
                osp = permuted(expected_filter(osp, keep, inv, False), keep,
                               inv)
        other = gen.apply_layout(ctx.biom, osp, r.choice(gen.LAYOUTS[:6]), r)
        tables.append(other)
        args = {'other': kind}
        aslist = r.random() < .5
        return (lambda t, ip: t.concat([other] if aslist else other,
                                       axis=axis)), args, tables
    if op == 'align_to_dataframe':
        # the table cut down to the ids a metadata frame has rows for (the
        # frame covers every id, in another order and with rows of its own,
        # or a part of them)
        import pandas as pd
        if r.random() < .6:
            idx = list(ids) + ['not in the table']
        else:
            idx = r.sample(ids, r.randint(1, len(ids)))
        r.shuffle(idx)
        df = pd.DataFrame({'grp': ['g%d' % (k % 2) for k in range(len(idx))]},
                          index=idx)
        args = {'frame_index': idx}
        return (lambda t, ip: t.align_to_dataframe(df, axis=axis)[0]), \
            args, tables
    if op == 'align_to':
        osp = second_table(ctx, r, spec, 'permuted')
        other = gen.apply_layout(ctx.biom, osp, r.choice(gen.LAYOUTS[:6]), r)
        tables.append(other)
        ax = r.choice(['sample', 'observation', 'both', 'detect'])
        args = {'align_axis': ax}
        return (lambda t, ip: t.align_to(other, axis=ax)), args, tables
    raise ValueError(op)


def _writes_metadata(v, i, m):
    # a user function that annotates the metadata entry it is handed (the
    # entry of the table being transformed: the copy, when inplace=False)
    if m is not None:
        # (something that does not depend on the order of the entries)
        m['seen by f'] = '%s:%d' % (i, int(np.count_nonzero(v)))
    return v * 2


def _writes_in_place(v, i, m):
    # a user function that scribbles on the buffer it is handed and returns it
    v *= 3
    return v


def run_case(ctx, index):
    r = ctx.rng(index)
    op = (INPLACE_OPS + NEW_OPS)[index % len(INPLACE_OPS + NEW_OPS)] \
        if r.random() < .7 else \
        r.choice(INPLACE_OPS + NEW_OPS)
    vclasses = ['count', 'dyadic', 'frac'] if op in ('norm', 'subsample',
                                                     'collapse') else None
    if op == 'subsample':
        vclasses = ['count']
    spec = gen.gen_spec(r, max_n=6, max_m=6, value_classes=vclasses,
                        allow_all_zero=op not in ('norm',))
    if r.random() < .2:
        # metadata for some of the ids only (an empty entry for the others)
        for md_ in (spec.obs_md, spec.samp_md):
            if md_ and len(md_) > 1:
                for q in r.sample(range(len(md_)), r.randint(1,
                                                             len(md_) - 1)):
                    md_[q] = {}
                ctx.count('axes_with_partly_empty_metadata')
    recipe = r.choice(gen.LAYOUTS)
    axis = r.choice(['sample', 'observation'])
    t = gen.apply_layout(ctx.biom, spec, recipe, r)
    st = note_layout(ctx, t)
    call, args, tables = build_call(ctx, r, spec, op, axis)
    desc = {'table': spec.describe(), 'recipe': recipe, 'layout': st,
            'op': op, 'axis': axis, 'args': args}
    ctx.count('op_' + op)
    if r.random() < .2:
        # a receiver that carries group metadata (a tree, a grouping) on one
        # axis or both
        for ax_ in r.sample(['sample', 'observation'], r.randint(1, 2)):
            t.add_group_metadata({'tree': ('newick', '(a,b)%s;' % ax_),
                                  'note': ('str', 'kept')}, axis=ax_)
        ctx.count('receivers_with_group_metadata')
        desc['group_metadata'] = True

    def grp(x):
        return copy.deepcopy((x.group_metadata(axis='observation'),
                              x.group_metadata(axis='sample')))
    grp_before = grp(t)

    def grp_unchanged(sig):
        if grp(t) != grp_before:
            raise Violation(sig, 'the receiver\'s group metadata are %r, '
                            'were %r; case=%r' % (grp(t), grp_before, desc))
    before = snap.snap(t)
    tb = [snap.snap(x) for x in tables]
    twin = copy.deepcopy(t)
    if gen.layout_state(twin) != st:
        raise Violation('C07/harness-deepcopy-layout', 'deepcopy changed the '
                        'layout state')
    try:
        res = call(t, False)
    except (ctx.TableException, ctx.DisjointIDError, IndexError,
            ZeroDivisionError) as e:
        # documented refusals (empty results of merge, empty table, ...)
        oracles.unchanged(t, before, 'C07/refused-but-modified', desc)
        if op in INPLACE_OPS:
            # the in-place variant of a request that cannot be carried out
            # is refused as well, and a refused call has changed nothing
            try:
                call(twin, True)
            except (ctx.TableException, ctx.DisjointIDError, IndexError,
                    ZeroDivisionError):
                oracles.unchanged(twin, before, 'C07/refused-inplace-'
                                  'modified-receiver/' + op, desc)
                ctx.count('refused_inplace_twins_checked')
        ctx.skip('refused:%s:%s' % (op, type(e).__name__))
        return
    ctx.count('noninplace_calls')
    results = res if isinstance(res, list) else [res]
    for x in results:
        if x is t or any(x is a for a in tables):
            if op in INPLACE_OPS or op in NEW_OPS:
                raise Violation('C07/returned-an-input', '%s returned one of '
                                'its inputs; case=%r' % (op, desc))
    oracles.unchanged(t, before, 'C07/receiver-modified/' + op, desc)
    grp_unchanged('C07/receiver-modified/' + op)
    for a, sb in zip(tables, tb):
        oracles.unchanged(a, sb, 'C07/argument-modified/' + op, desc,
                          'argument table')
        ctx.count('args_tables_checked')
    res_snaps = [snap.snap(x) for x in results]
    nontrivial = any(snap.diff(s, before) for s in res_snaps)
    # in-place equivalence
    if op in INPLACE_OPS:
        r2 = call(twin, True)
        if r2 is not twin:
            raise Violation('C07/inplace-not-receiver', 'in-place %s did not '
                            'return the receiver; case=%r' % (op, desc))
        # operations that sum floats (norm divides by a vector total; a
        # user transform may) can add in another order on a copy whose
        # entries were put in order: equal to the last few ulps
        loose = 1e-12 if op in ('norm', 'transform', 'rankdata') else None
        d = snap.diff(snap.snap(twin), res_snaps[0], rtol=loose)
        if d:
            raise Violation('C07/inplace-differs/' + op, 'in-place result '
                            'differs from the copy variant: %s; case=%r' %
                            ('; '.join(d), desc))
        ctx.count('inplace_equivalence_checked')
        oracles.unchanged(t, before, 'C07/receiver-modified-by-twin/' + op,
                          desc)
    # isolation: in-place edits of the result must not show in the inputs
    for x in results:
        if battery(ctx, x, r):
            ctx.count('isolation_batteries')
    oracles.unchanged(t, before, 'C07/result-aliases-receiver/' + op, desc)
    grp_unchanged('C07/result-aliases-receiver/' + op)
    for a, sb in zip(tables, tb):
        oracles.unchanged(a, sb, 'C07/result-aliases-argument/' + op, desc,
                          'argument table')
    # and the other direction: editing the receiver must not show in a
    # second, untouched result
    if op not in ('subsample',) and index % 3 == 0:
        t3 = gen.apply_layout(ctx.biom, spec, recipe, ctx.rng(index, 't3'))
        try:
            res3 = call(t3, False)
        except Exception:
            res3 = None
        if res3 is not None:
            r3 = res3 if isinstance(res3, list) else [res3]
            s3 = [snap.snap(x) for x in r3]
            battery(ctx, t3, r)
            for x, s in zip(r3, s3):
                oracles.unchanged(x, s, 'C07/receiver-edit-shows-in-result/'
                                  + op, desc, 'result')
            ctx.count('reverse_isolation_checked')
    # fault injection: callback raising at its k-th call
    if op in ('filter', 'transform') and len(spec.ids(axis)) >= 1:
        k = r.randrange(len(spec.ids(axis)))
        t4 = gen.apply_layout(ctx.biom, spec, recipe, ctx.rng(index, 't4'))
        b4 = snap.snap(t4)
        n = [0]

        def bad(v, i, m):
            n[0] += 1
            if n[0] > k:
                raise Boom()
            v *= 5
            return v if op == 'transform' else True
        try:
            if op == 'filter':
                t4.filter(bad, axis=axis, inplace=False)
            else:
                t4.transform(bad, axis=axis, inplace=False)
        except Boom:
            pass
        oracles.unchanged(t4, b4, 'C07/aborted-call-modified-receiver/' + op,
                          desc)
        ctx.count('fault_injections')
    ctx.case(desc, bool(nontrivial))


def setup(ctx):
    from biom.exception import TableException, DisjointIDError
    ctx.TableException = TableException
    ctx.DisjointIDError = DisjointIDError


def stress(ctx):
    """Scale: a one-id / two-id partial renaming on a 300-id axis."""
    r = ctx.rng('stress')
    for axis in ('sample', 'observation'):
        n = 300
        ids = ['S%03d' % i for i in range(n)]
        V = np.arange(n * 2, dtype=float).reshape(n, 2) + 1
        spec = gen.Spec(ids if axis == 'observation' else ['a', 'b'],
                        ['a', 'b'] if axis == 'observation' else ids,
                        V if axis == 'observation' else V.T,
                        [{'k': i} for i in range(n)] if axis == 'observation'
                        else None,
                        None if axis == 'observation' else
                        [{'k': i} for i in range(n)])
        for recipe in ('as-built', 'touch-sample', 'sort-unsort-samp'):
            for k in (1, 2):
                t = gen.apply_layout(ctx.biom, spec, recipe, r)
                sib = t.sort_order(list(spec.ids(axis)), axis=axis)
                before, sb = snap.snap(t), snap.snap(sib)
                pick = r.sample(ids, k)
                mp = {i: 'x' + i[1:] for i in pick}     # same width, distinct
                desc = {'scale': 'update_ids %r on %d %s ids (%s)' %
                        (mp, n, axis, recipe)}
                res = t.update_ids(dict(mp), axis=axis, strict=False,
                                   inplace=False)
                oracles.unchanged(t, before, 'C07/receiver-modified/'
                                  'update_ids', desc)
                exp = [mp.get(i, i) for i in ids]
                if [str(i) for i in res.ids(axis=axis)] != exp:
                    raise Violation('C07/scale-update_ids-result', '%r' %
                                    desc)
                res.update_ids({exp[0]: 'Zzzz'}, axis=axis, strict=False,
                               inplace=True)
                oracles.unchanged(t, before, 'C07/result-aliases-receiver/'
                                  'update_ids', desc)
                oracles.unchanged(sib, sb, 'C07/result-aliases-sibling/'
                                  'update_ids', desc, 'sibling table')
                ctx.count('scale_cases')
                ctx.case(desc, True)
