"""C03 -- classic tab-separated export/import round trip.

Monitors: independent decoder of the exported text (vm/tsvspec.py; observes
the exporter alone), then each importer's table against the source snapshot.
"""
import gzip
import io
import json
import os

import numpy as np

from vm import gen, snap, tsvspec
from vm.ctx import Violation

ID = 'C03'
TITLE = 'TSV export/import round trip'
LEVEL = 'exploration'
RULE = ('generated tables (ids without tab/newline, not starting with "#", '
        'no edge blanks; all value classes incl. exponent-notation values in '
        'the last column; 1xM and Nx1 shapes) x 13 layout recipes x '
        'exporter {to_tsv, str, to_tsv(direct_io), biom convert --to-tsv} x '
        'optional taxonomy column x importer {from_tsv(lines), '
        'from_tsv(handle), load_table(path), load_table(gz), parse_table('
        'lines), biom convert to JSON / HDF5}. Non-trivial: >=1 non-zero and '
        '(a value whose text needs an exponent or >6 digits, or a 1-row / '
        '1-column shape, or an exported category); distinct = distinct '
        '(table, layout, exporter, importer)')
ASSUMPTIONS = [
    'ids contain no tab / newline / carriage return / Unicode line '
    'separator, do not start with "#", and have no str.isspace() character '
    'at either end',
    'taxonomy elements contain no ";" or tab and no edge whitespace, may be '
    'empty (rank padding) but not all of them, and the joined text is never '
    'parseable as a number',
]
ANCHORS = ['Table.delimited_self', 'Table._extract_data_from_tsv', 'Table.from_tsv', '_convert', 'parse_biom_table']
REQUIRED = ['import_cli_with_sample_mapping_file', 'export_column_name_without_hash', 'hierarchical_category_round_trips', 'import_from_tsv_with_mappings', 'ids_with_line_boundary_characters', 'text_category_round_trips', 'last_sample_named_like_a_metadata_column', 'scale_exports', 'ids_with_blanks_at_their_edges', 'non_finite_value_in_last_column', 'export_legacy_function', 'export_other_column_name',
            'import_legacy_convert_table_to_biom', 'export_asked_for_absent_metadata', 'exported_again_after_change', 'export_to_tsv', 'export_str', 'export_direct_io',
            'export_cli', 'import_from_tsv_lines', 'import_from_tsv_handle',
            'import_load_table', 'import_load_table_gz', 'import_load_table_crlf', 'import_from_tsv_lines_crlf', 'import_from_tsv_keywords', 'lines_list_read_twice',
            'import_parse_table_lines', 'import_cli_json', 'import_cli_hdf5',
            'with_md_column', 'single_sample', 'single_observation',
            'exponent_in_last_column', 'layout_csc_seen',
            'layout_unsorted_seen']

_TAXA = ['k__Bacteria', 'p__Firmicutes', 'c__[Bacilli]', 'o__é', 'g__日本',
         's__x y', 'Unassigned', 'f__a/b', "d__it's", 'q__"x"']
ID_OK = ['ascii', 'one', 'long', 'punct', 'space', 'slash', 'numeric',
         'natsort', 'latin1', 'cjk', 'astral', 'prefix', 'case', 'reserved',
         'decimal', 'mixed']


def plan(tier):
    n = 5000 if tier == 'quick' else 150000
    return {'cases': n, 'shards': 16, 'min_nontrivial': 500,
            'timeout': 900 if tier == 'quick' else 3600}


def id_ok(i):
    return (i and not i.startswith('#') and not i[0].isspace() and
            not i[-1].isspace() and not any(c in i for c in '\t\n\r'))


def text_md_case(ctx, index, r):
    """One *text* observation category exported as the metadata column
    (formatter and processing function: identity), also where the first
    observation's value is the empty string."""
    biom = ctx.biom
    spec = gen.gen_spec(r, max_n=5, max_m=4, id_classes=['ascii', 'natsort',
                                                         'latin1', 'decimal'],
                        md_kinds=['none'], value_classes=['count', 'frac',
                                                          'tiny'])
    n = len(spec.obs_ids)
    vals = [r.choice(['soil', 'a b', 'é', 'x;y', 'k__A; p__B', '', 'n/a'])
            for _ in range(n)]
    if r.random() < .5:
        vals[0] = ''
    if not any(v and not _looks_numeric(v) for v in vals):
        vals[-1] = 'soil'
    spec.obs_md = [{'env': v} for v in vals]
    t = gen.build(biom, spec, 'dense')
    desc = {'table': spec.describe(), 'text_category': vals}
    exporter = r.choice(['to_tsv', 'direct_io', 'legacy-function', 'cli'])
    desc['exporter'] = exporter
    files = []
    try:
        if exporter == 'to_tsv':
            text = t.to_tsv(header_key='env', header_value='env',
                            metadata_formatter=lambda x: x)
        elif exporter == 'direct_io':
            buf = io.StringIO()
            t.to_tsv(header_key='env', header_value='env',
                     metadata_formatter=lambda x: x, direct_io=buf)
            text = buf.getvalue()
        else:
            inp = ctx.path('c03txt%d.biom' % index)
            files.append(inp)
            with open(inp, 'w', encoding='utf-8') as f:
                f.write(t.to_json('vm'))
            if exporter == 'legacy-function':
                from biom.parse import convert_biom_to_table
                text = convert_biom_to_table(inp, header_key='env',
                                             header_value='env',
                                             md_format=lambda x: x)
            else:
                outp = ctx.path('c03txt%d.tsv' % index)
                files.append(outp)
                rr = _cli(['convert', '-i', inp, '-o', outp, '--to-tsv',
                           '--header-key', 'env',
                           '--tsv-metadata-formatter', 'naive'])
                if rr.exit_code != 0:
                    raise Violation('C03/cli-export-failed', 'exit %s %r %r; '
                                    'case=%r' % (rr.exit_code,
                                                 rr.output[-300:],
                                                 rr.exception, desc))
                with open(outp, encoding='utf-8') as f:
                    text = f.read()
        try:
            o, s_, D, mdn, mds = tsvspec.decode(text, True)
        except Exception as e:
            raise Violation('C03/export-undecodable', '%s: %s; text=%r; '
                            'case=%r' % (type(e).__name__, e, text[:300],
                                         desc))
        if o != spec.obs_ids or s_ != spec.samp_ids or \
                not snap.bits_equal(D, spec.D) or mdn != 'env' or \
                mds != vals:
            raise Violation('C03/export-metadata', 'the text reads %r / %r / '
                            '%r / %s=%r; case=%r' % (o, s_, D.tolist(), mdn,
                                                     mds, desc))
        lines = text.split('\n')
        if lines and lines[-1] == '':
            lines.pop()
        t2 = biom.Table.from_tsv(lines, None, None, lambda x: x)
        g = snap.snap(t2)
        d = snap.diff(g, snap.snap_spec(spec), fields=('obs_ids', 'samp_ids',
                                                       'D'))
        if d or not snap.md_equal(g.obs_md, spec.obs_md):
            raise Violation('C03/roundtrip-metadata/from_tsv_lines', '%s; '
                            'metadata %r vs %r; case=%r' %
                            ('; '.join(d), g.obs_md, spec.obs_md, desc))
        ctx.count('text_category_round_trips')
    finally:
        for p_ in files:
            if os.path.exists(p_):
                os.remove(p_)
    ctx.case(desc, True)


def nested_md_case(ctx, index, r):
    """The library's own formatter / inverse pair for hierarchical values:
    ``biom.parse.biom_meta_to_string`` (the default of the legacy export
    function) writes a text, a flat list or a list of lists (several
    lineages per observation); ``sc_pipe_separated`` reads the text back as
    a list of lists.  Tokens are free of the two separators and of blanks at
    their edges, which is where the pair is an inverse."""
    biom = ctx.biom
    from biom.parse import (biom_meta_to_string, sc_pipe_separated,
                            convert_biom_to_table)
    spec = gen.gen_spec(r, max_n=5, max_m=4, id_classes=['ascii', 'natsort',
                                                         'latin1', 'decimal'],
                        md_kinds=['none'], value_classes=['count', 'frac',
                                                          'tiny'])
    n = len(spec.obs_ids)
    toks = [x for x in _TAXA if ';' not in x and '|' not in x]
    shape = r.choice(['lists-of-lists', 'flat-lists', 'mixed-depth',
                      'flat-lists-split-on-semicolon'])
    inverse = sc_pipe_separated
    if shape == 'flat-lists-split-on-semicolon':
        # flat lineages read back with the split-on-';' function: the '|'
        # is an ordinary character of a level then
        from biom.cli.table_converter import observation_metadata_types
        inverse = observation_metadata_types['sc_separated']
        toks = toks + ['a|b', '|x', 'p__c|d']

    def lineage():
        return [r.choice(toks) for _ in range(r.randint(1, 4))]
    vals, want = [], []
    for k in range(n):
        nested = shape == 'lists-of-lists' or \
            (shape == 'mixed-depth' and r.random() < .5)
        if nested:
            v = [lineage() for _ in range(r.randint(1, 3))]
            vals.append(v)
            want.append([list(x) for x in v])
        else:
            v = lineage()
            vals.append(v)
            want.append([list(v)] if inverse is sc_pipe_separated else list(v))
    if shape == 'lists-of-lists' and all(len(v) == 1 for v in vals):
        vals[0] = vals[0] + [lineage()]
        want[0] = [list(x) for x in vals[0]]
    spec.obs_md = [{'taxonomy': v} for v in vals]
    t = gen.build(biom, spec, 'dense')
    exporter = r.choice(['to_tsv', 'direct_io', 'legacy-function-default'])
    desc = {'table': spec.describe(), 'hierarchical_category': vals,
            'shape': shape, 'exporter': exporter}
    files = []
    try:
        if exporter == 'to_tsv':
            text = t.to_tsv(header_key='taxonomy', header_value='taxonomy',
                            metadata_formatter=biom_meta_to_string)
        elif exporter == 'direct_io':
            buf = io.StringIO()
            t.to_tsv(header_key='taxonomy', header_value='taxonomy',
                     metadata_formatter=biom_meta_to_string, direct_io=buf)
            text = buf.getvalue()
        else:
            inp = ctx.path('c03nest%d.biom' % index)
            files.append(inp)
            with open(inp, 'w', encoding='utf-8') as f:
                f.write(t.to_json('vm'))
            text = convert_biom_to_table(inp, header_key='taxonomy',
                                         header_value='taxonomy')
        try:
            o, s_, D, mdn, mds = tsvspec.decode(text, True)
        except Exception as e:
            raise Violation('C03/export-undecodable', '%s: %s; text=%r; '
                            'case=%r' % (type(e).__name__, e, text[:300],
                                         desc))
        if o != spec.obs_ids or s_ != spec.samp_ids or \
                not snap.bits_equal(D, spec.D) or mdn != 'taxonomy':
            raise Violation('C03/export-metadata', 'the text reads %r / %r / '
                            '%r / %s; case=%r' % (o, s_, D.tolist(), mdn,
                                                  desc))
        lines = text.split('\n')
        if lines and lines[-1] == '':
            lines.pop()
        t2 = biom.Table.from_tsv(lines, None, None, inverse)
        g = snap.snap(t2)
        d = snap.diff(g, snap.snap_spec(spec), fields=('obs_ids', 'samp_ids',
                                                       'D'))
        got = None if g.obs_md is None else [m.get('taxonomy')
                                             for m in g.obs_md]
        if d or got != want:
            raise Violation('C03/roundtrip-metadata/hierarchical', '%s; the '
                            'category reads back %r, exported %r; case=%r' %
                            ('; '.join(d), got, want, desc))
        ctx.count('hierarchical_category_round_trips')
        ctx.cls('hierarchical_shape', shape)
    finally:
        for p_ in files:
            if os.path.exists(p_):
                os.remove(p_)
    ctx.case(desc, True)


def _looks_numeric(v):
    try:
        float(v)
        return True
    except ValueError:
        return False


def run_case(ctx, index):
    r = ctx.rng(index)
    if index % 19 == 7:
        return text_md_case(ctx, index, r)
    if index % 19 == 13:
        return nested_md_case(ctx, index, r)
    biom = ctx.biom
    shape = None
    pick = index % 6
    if pick == 0:
        shape = (r.randint(1, 6), 1)
    elif pick == 1:
        shape = (1, r.randint(1, 6))
    spec = gen.gen_spec(r, max_n=6, max_m=6, id_classes=ID_OK, shape=shape,
                        md_kinds=['none', 'text', 'int'])
    if not all(id_ok(i) for i in spec.obs_ids + spec.samp_ids):
        ctx.skip('generated id outside the C03 alphabet')
        return
    if r.random() < .06:
        # a sample called like the metadata column usually is, last in line
        nm = r.choice(['taxonomy', 'Taxonomy', 'Consensus Lineage',
                       'ConsensusLineage', 'metadata', 'KEGG_Pathways'])
        if nm not in spec.samp_ids:
            spec.samp_ids[-1] = nm
            ctx.count('last_sample_named_like_a_metadata_column')
    if r.random() < .1:
        # characters some line-splitting routines take for line ends, inside
        # an id (only \n and \r end a line of the classic format)
        odd = r.choice(['\x0b', '\x0c', '\x1c', '\x1d', '\x1e', '\x85',
                        '\u2028', '\u2029'])
        k = r.randrange(len(spec.obs_ids))
        spec.obs_ids[k] = spec.obs_ids[k][:1] + odd + spec.obs_ids[k][1:] + 'z'
        k = r.randrange(len(spec.samp_ids))
        spec.samp_ids[k] = spec.samp_ids[k][:1] + odd + spec.samp_ids[k][1:] \
            + 'z'
        if spec.obs_md and 'taxonomy' in spec.obs_md[0]:
            spec.obs_md[-1]['taxonomy'] = ['k__in' + odd + 'side'] + \
                spec.obs_md[-1]['taxonomy'][1:]
        ctx.count('ids_with_line_boundary_characters')
    edge_blanks = r.random() < .15
    if edge_blanks:
        # blanks at the edges of an id are part of the id (fields are
        # separated by tabs).  The one place the text form cannot keep them
        # is the very end of the header line, i.e. after the last sample id.
        def pad(i, lead=True, trail=True):
            return (' ' if lead and r.random() < .5 else '') + i + \
                (r.choice([' ', '  ']) if trail and r.random() < .5 else '')
        spec.obs_ids = [pad(i) for i in spec.obs_ids]
        spec.samp_ids = [pad(i, trail=(k < len(spec.samp_ids) - 1))
                         for k, i in enumerate(spec.samp_ids)]
        if len(set(spec.obs_ids)) != len(spec.obs_ids) or \
                len(set(spec.samp_ids)) != len(spec.samp_ids):
            ctx.skip('padding made ids collide')
            return
        ctx.count('ids_with_blanks_at_their_edges')
    with_md = r.random() < .4
    if with_md:
        def lineage():
            # rank-padded lineages: unassigned ranks are empty strings
            ln = [r.choice(_TAXA) if r.random() > .18 else ''
                  for _ in range(r.randint(1, 5))]
            if not any(ln):
                ln[0] = r.choice(_TAXA)
            return ln
        spec.obs_md = [{'taxonomy': lineage()} for _ in spec.obs_ids]
        ctx.count('with_md_column')
    pending_special = None
    if r.random() < .3 and spec.D.size:
        # force an exponent-notation (or non-finite) value into the last
        # column
        pending_special = r.choice(
            [2.5e-07, 1e-05, 3e+16, 1e+22, 5e-324, 1.7e308, -4e-09,
             float('inf'), float('-inf'), float('nan')])
        where = r.randrange(spec.D.shape[0])
        if np.isfinite(pending_special):
            spec.D[where, -1] = pending_special
            pending_special = None
    if spec.D.size and 'e' in ''.join(str(np.float64(v)) for v in
                                      spec.D[:, -1]):
        ctx.count('exponent_in_last_column')
    if spec.D.shape[1] == 1:
        ctx.count('single_sample')
    if spec.D.shape[0] == 1:
        ctx.count('single_observation')
    recipe = r.choice(gen.LAYOUTS)
    t = gen.apply_layout(biom, spec, recipe, r)
    st = gen.layout_state(t)
    ctx.cls('layout_state', st)
    ctx.cls('values', spec.classes['values'])
    ctx.cls('ids', spec.classes['ids_obs'])
    if 'unsorted' in st:
        ctx.count('layout_unsorted_seen')
    if st.startswith('csc'):
        ctx.count('layout_csc_seen')
    exporter = r.choice(['to_tsv', 'str', 'direct_io', 'to_tsv', 'to_tsv',
                         'str', 'direct_io', 'to_tsv', 'legacy-function'])
    colname = '#OTU ID'
    if index % 8 == 3:
        exporter = 'cli'
    if exporter in ('to_tsv', 'direct_io') and r.random() < .25:
        colname = r.choice(['#FeatureID', '#Feature ID', '#NAME', '#ID é',
                            '#OTU ID', 'OTU', 'Feature ID', 'featureid'])
        if not colname.startswith('#'):
            ctx.count('export_column_name_without_hash')
    if index % 8 == 3:
        exporter = 'cli'
    nonfinite = False
    if pending_special is not None and exporter in ('to_tsv', 'str',
                                                    'direct_io'):
        # inf / nan are numbers of the classic text format (the JSON form
        # cannot hold them, so only the text routes are driven with them)
        spec.D[where, -1] = pending_special
        t = gen.apply_layout(biom, spec, recipe, r)
        nonfinite = True
        ctx.count('non_finite_value_in_last_column')
    if exporter == 'str':
        with_md_export = False
    else:
        with_md_export = with_md
    desc = {'table': spec.describe(), 'recipe': recipe, 'layout': st,
            'exporter': exporter, 'md_column': with_md_export}
    src = snap.snap_spec(spec)
    kw = {}
    if with_md_export:
        kw = dict(header_key='taxonomy', header_value='taxonomy',
                  metadata_formatter=lambda x: '; '.join(x))
    elif exporter in ('to_tsv', 'direct_io') and spec.obs_md is None and \
            r.random() < .3:
        # a metadata column is asked for, the table has no observation
        # metadata to fill it with: the text is still this table
        kw = dict(header_key='taxonomy', header_value=r.choice(
            ['taxonomy', 'Consensus Lineage']))
        desc['asked_for_absent_metadata'] = True
        ctx.count('export_asked_for_absent_metadata')
    files = []
    try:
        if colname != '#OTU ID':
            kw['observation_column_name'] = colname
            desc['observation_column_name'] = colname
            ctx.count('export_other_column_name')
        if exporter == 'to_tsv':
            text = t.to_tsv(**kw)
            ctx.count('export_to_tsv')
        elif exporter == 'legacy-function':
            # biom.parse.convert_biom_to_table: file in, classic text out
            inp = ctx.path('c03leg%d.biom' % index)
            files.append(inp)
            with open(inp, 'w', encoding='utf-8') as f:
                f.write(t.to_json('vm'))
            from biom.parse import convert_biom_to_table
            if with_md_export:
                text = convert_biom_to_table(
                    inp, header_key='taxonomy', header_value='taxonomy',
                    md_format=None if r.random() < .5 else kw[
                        'metadata_formatter'])
            else:
                text = convert_biom_to_table(inp)
            ctx.count('export_legacy_function')
        elif exporter == 'str':
            text = str(t)
            ctx.count('export_str')
        elif exporter == 'direct_io':
            buf = io.StringIO()
            t.to_tsv(direct_io=buf, **kw)
            text = buf.getvalue()
            ctx.count('export_direct_io')
        else:
            inp = ctx.path('c03in%d.biom' % index)
            outp = ctx.path('c03out%d.tsv' % index)
            files += [inp, outp]
            has_empty_rank = with_md and any('' in e['taxonomy']
                                             for e in spec.obs_md)
            # HDF5 cannot hold empty list elements (they are its padding)
            if r.random() < .5 and not has_empty_rank:
                biom.save_table(t, inp)
            else:
                with open(inp, 'w', encoding='utf-8') as f:
                    f.write(t.to_json('vm'))
            args = ['convert', '-i', inp, '-o', outp, '--to-tsv']
            if with_md_export:
                args += ['--header-key', 'taxonomy',
                         '--tsv-metadata-formatter', 'sc_separated']
            rr = _cli(args)
            if rr.exit_code != 0:
                raise Violation('C03/cli-export-failed', 'exit %s %r %r; '
                                'case=%r' % (rr.exit_code, rr.output[-300:],
                                             rr.exception, desc))
            with open(outp, encoding='utf-8') as f:
                text = f.read()
            ctx.count('export_cli')
        # ------------------------------------------------ exporter alone
        try:
            o, s, D, mdn, mds = tsvspec.decode(
                text, with_md_export, not colname.startswith('#'))
        except Exception as e:
            raise Violation('C03/export-undecodable', '%s: %s; text=%r; '
                            'case=%r' % (type(e).__name__, e, text[:300],
                                         desc))
        if o != src.obs_ids or s != src.samp_ids:
            raise Violation('C03/export-ids', 'text has %r / %r, table %r / '
                            '%r; case=%r' % (o, s, src.obs_ids, src.samp_ids,
                                             desc))
        if not snap.bits_equal(D, src.D):
            raise Violation('C03/export-values', 'text decodes to %r, table '
                            'holds %r; case=%r' % (D.tolist(),
                                                   src.D.tolist(), desc))
        if with_md_export:
            exp_md = ['; '.join(e['taxonomy']) for e in spec.obs_md]
            if mds != exp_md or mdn != 'taxonomy':
                raise Violation('C03/export-metadata', '%r vs %r; case=%r' %
                                (mds, exp_md, desc))
        # --------------------------------------------------- importers

        def proc(x):
            return [e.strip() for e in x.split(';')]
        lines = text.split('\n')
        if lines and lines[-1] == '':
            # the direct_io form ends with a newline; the empty string after
            # it is not a line of the text
            lines.pop()
        path = ctx.path('c03_%d.txt' % index)
        gz = path + '.gz'
        files += [path, gz]
        with open(path, 'w', encoding='utf-8') as f:
            f.write(text)
        with gzip.open(gz, 'wb') as f:
            f.write(text.encode('utf-8'))
        # the same text with the line ends another platform writes
        crlf = path + '.crlf.txt'
        files.append(crlf)
        with open(crlf, 'w', encoding='utf-8', newline='') as f:
            f.write('\r\n'.join(lines) + '\r\n')
        # the caller's list of lines is the caller's: it is handed over as
        # it is, must come back as it went in and read the same a second time
        mine = list(lines)

        def twice_from_my_list():
            first = biom.Table.from_tsv(mine, None, None, proc)
            if mine != lines:
                raise RuntimeError('the list of lines handed to from_tsv has '
                                   '%d entries afterwards, had %d' %
                                   (len(mine), len(lines)))
            again = biom.Table.from_tsv(mine, None, None, proc)
            if snap.diff(snap.snap(again), snap.snap(first)):
                raise RuntimeError('the same list of lines read a second '
                                   'time gives another table')
            ctx.count('lines_list_read_twice')
            return first
        importers = [
            ('from_tsv_lines', 'list', twice_from_my_list),
            ('from_tsv_handle', 'list', lambda: biom.Table.from_tsv(
                io.StringIO(text), None, None, proc)),
            # the reader's own keywords spelled out (an identity pre-parser
            # for the metadata column, the delimiter, the element type)
            ('from_tsv_keywords', 'list', lambda: biom.Table.from_tsv(
                list(lines), None, None, proc, md_parse=lambda x: x,
                **({'delim': '\t'} if index % 2 else {'dtype': float}))),
            ('load_table', 'raw', lambda: biom.load_table(path)),
            ('load_table_gz', 'raw', lambda: biom.load_table(gz)),
            ('load_table_crlf', 'raw', lambda: biom.load_table(crlf)),
            ('from_tsv_lines_crlf', 'list', lambda: biom.Table.from_tsv(
                [ln + '\r' for ln in lines], None, None, proc)),
            ('parse_table_lines', 'raw', lambda: biom.parse_table(
                [ln + '\n' for ln in lines])),
            ('legacy_convert_table_to_biom', 'list',
             lambda: biom.Table.from_json(json.loads(
                 biom.parse.convert_table_to_biom(list(lines), None, None,
                                                  proc)))),
        ]
        # with metadata handed over in mappings (which then is the
        # metadata; ids and values are the text's)
        smap = {i: {'from': 'sample mapping', 'n': k_}
                for k_, i in enumerate(spec.samp_ids)}
        omap = {i: {'from': 'observation mapping'} for i in spec.obs_ids}

        def with_mappings():
            t_ = biom.Table.from_tsv(list(lines), omap if index % 2 else None,
                                     smap, proc)
            got_s = [dict(e) for e in t_.metadata(axis='sample')]
            if got_s != [smap[i] for i in spec.samp_ids]:
                raise RuntimeError('sample metadata %r' % (got_s,))
            if index % 2:
                got_o = [dict(e) for e in t_.metadata(axis='observation')]
                if got_o != [omap[i] for i in spec.obs_ids]:
                    raise RuntimeError('observation metadata %r' % (got_o,))
            return t_
        importers.append(('from_tsv_with_mappings', 'mapped', with_mappings))
        if nonfinite:
            importers = [i for i in importers
                         if i[0] != 'legacy_convert_table_to_biom']
        if index % 8 in (3, 5) and not nonfinite:
            fmt = 'json' if index % 16 < 8 else 'hdf5'
            if with_md_export and any('' in e['taxonomy']
                                      for e in spec.obs_md):
                fmt = 'json'
            outb = ctx.path('c03conv%d.biom' % index)
            files.append(outb)

            def via_cli():
                args = ['convert', '-i', path, '-o', outb, '--to-' + fmt,
                        '--table-type', 'OTU table']
                if with_md_export:
                    args += ['--process-obs-metadata', 'taxonomy']
                # sample metadata from a mapping file on the way (ids and
                # values stay the text's)
                mapped = index % 3 == 0 and all(
                    i == i.strip() and '"' not in i and
                    not any(c in i for c in '\x0b\x0c\x1c\x1d\x1e\x85'
                            '\u2028\u2029')
                    for i in spec.samp_ids)
                if mapped:
                    mp_ = ctx.path('c03map%d.txt' % index)
                    files.append(mp_)
                    with open(mp_, 'w', encoding='utf-8') as f:
                        f.write('#SampleID\tNote\n' + ''.join(
                            '%s\tnote %d\n' % (i, k_)
                            for k_, i in enumerate(spec.samp_ids)))
                    args += ['--sample-metadata-fp', mp_]
                rr = _cli(args)
                if rr.exit_code != 0:
                    raise RuntimeError('biom convert exit %s: %r %r' % (
                        rr.exit_code, rr.output[-300:], rr.exception))
                t_ = biom.load_table(outb)
                if mapped:
                    got_s = [dict(e) for e in t_.metadata(axis='sample')]
                    if got_s != [{'Note': 'note %d' % k_}
                                 for k_ in range(len(spec.samp_ids))]:
                        raise RuntimeError('sample metadata from the mapping '
                                           'file came out as %r' % (got_s,))
                    ctx.count('import_cli_with_sample_mapping_file')
                return t_
            importers.append(('cli_' + fmt, 'list', via_cli))
        for nm, mdform, f in importers:
            try:
                t2 = f()
            except Exception as e:
                raise Violation('C03/importer-failed/' + nm, '%s: %s; '
                                'text=%r; case=%r' % (type(e).__name__, e,
                                                      text[:400], desc))
            g = snap.snap(t2)
            d = snap.diff(g, src, fields=('obs_ids', 'samp_ids', 'D'))
            if d:
                raise Violation('C03/roundtrip-differs/' + nm, '%s; text=%r;'
                                ' case=%r' % ('; '.join(d), text[:400],
                                              desc))
            if mdform == 'mapped':
                ctx.count('import_' + nm)
                continue
            if with_md_export:
                if mdform == 'list':
                    expm = [{'taxonomy': list(e['taxonomy'])}
                            for e in spec.obs_md]
                else:
                    # read without a processing function the text comes back
                    # as written, minus the blanks at the end of the line
                    expm = [{'taxonomy': '; '.join(e['taxonomy']).strip()}
                            for e in spec.obs_md]
                if not snap.md_equal(g.obs_md, expm):
                    raise Violation('C03/roundtrip-metadata/' + nm, '%r vs '
                                    '%r; case=%r' % (g.obs_md, expm, desc))
            elif any(g.obs_md):
                raise Violation('C03/phantom-metadata/' + nm, 'imported '
                                'observation metadata %r from a table '
                                'exported without any; text=%r; case=%r' %
                                (g.obs_md, text[:400], desc))
            ctx.count('import_' + nm)
        # ------------------------------- export again after a change
        # a table that has been exported and is then changed in place
        # exports what it holds now
        if exporter not in ('cli', 'legacy-function') and spec.D.size:
            change = r.choice(['negate-observation', 'negate-sample',
                               'rename-samples', 'rename-observations',
                               'presence-absence'])
            if np.any(np.isnan(spec.D)) and change.startswith('negate'):
                # the text form has no sign for nan
                change = 'rename-samples'
            now = spec.copy()
            if change.startswith('negate'):
                t.transform(lambda v, i, m: -v, axis=change.split('-')[1],
                            inplace=True)
                now.D = np.where(spec.D != 0, -spec.D, 0.0)
            elif change == 'rename-samples':
                now.samp_ids = ['r_' + i for i in spec.samp_ids]
                t.update_ids(dict(zip(spec.samp_ids, now.samp_ids)),
                             axis='sample', inplace=True)
            elif change == 'rename-observations':
                now.obs_ids = [i + '.v2' for i in spec.obs_ids]
                t.update_ids(dict(zip(spec.obs_ids, now.obs_ids)),
                             axis='observation', inplace=True)
            else:
                t.pa(inplace=True)
                now.D = (spec.D != 0).astype(float)
            if exporter == 'to_tsv':
                text2 = t.to_tsv(**kw)
            elif exporter == 'str':
                text2 = str(t)
            else:
                buf = io.StringIO()
                t.to_tsv(direct_io=buf, **kw)
                text2 = buf.getvalue()
            d2 = dict(desc, changed_in_place=change)
            try:
                o, s_, D2, _, _ = tsvspec.decode(
                    text2, with_md_export, not colname.startswith('#'))
            except Exception as e:
                raise Violation('C03/export-undecodable', '%s: %s; text=%r; '
                                'case=%r' % (type(e).__name__, e, text2[:300],
                                             d2))
            if o != now.obs_ids or s_ != now.samp_ids or \
                    not snap.bits_equal(D2, now.D):
                raise Violation('C03/export-after-change', 'after %s the '
                                'export still reads %r / %r / %r, the table '
                                'holds %r / %r / %r; case=%r' %
                                (change, o, s_, D2.tolist(), now.obs_ids,
                                 now.samp_ids, now.D.tolist(), d2))
            t3 = biom.Table.from_tsv(text2.split('\n')[:-1] if
                                     text2.endswith('\n') else
                                     text2.split('\n'), None, None, proc)
            d = snap.diff(snap.snap(t3), snap.snap_spec(now),
                          fields=('obs_ids', 'samp_ids', 'D'))
            if d:
                raise Violation('C03/roundtrip-differs/after-change', '%s; '
                                'case=%r' % ('; '.join(d), d2))
            ctx.count('exported_again_after_change')
    finally:
        for p in files:
            if os.path.exists(p):
                os.remove(p)
    nz = spec.D[spec.D != 0]
    hard = any(('e' in repr(float(v))) or float('%.6g' % v) != v
               for v in nz.tolist())
    ctx.case(desc, bool(len(nz) and (hard or 1 in spec.D.shape or
                                     with_md_export)))


def _cli(args):
    from click.testing import CliRunner
    from biom.cli import cli
    return CliRunner().invoke(cli, args)


def stress(ctx):
    """Scale: many observations / many samples through every exporter and
    back (block sizes such as 1024, 4096, 8192 are crossed)."""
    biom = ctx.biom
    r = ctx.rng('stress')
    extra = [(n_, 2) for n_ in gen.boundary_sizes(
        r, 500, 9000, 2 if ctx.tier == 'quick' else 8)]
    for n, m in [(4097, 2), (8200, 1), (2, 4100), (1025, 3)] + extra:
        rng = np.random.default_rng(r.randrange(2 ** 32))
        D = rng.integers(0, 4, size=(n, m)).astype(float)
        D[-1, -1] = 7.5
        D[0, 0] = 1e-07
        obs = ['o%05d' % i for i in range(n)]
        samp = ['s%05d' % i for i in range(m)]
        t = biom.Table(D, obs, samp)
        for exporter in ('to_tsv', 'str', 'direct_io'):
            if exporter == 'to_tsv':
                text = t.to_tsv()
            elif exporter == 'str':
                text = str(t)
            else:
                buf = io.StringIO()
                t.to_tsv(direct_io=buf)
                text = buf.getvalue()
            desc = {'scale': '%dx%d via %s' % (n, m, exporter)}
            o, s_, D2, _, _ = tsvspec.decode(text, False)
            if o != obs or s_ != samp or not snap.bits_equal(D2, D):
                raise Violation('C03/export-values', 'scale: the text has %d '
                                'observations x %d samples (last ids %r / '
                                '%r); %r' % (len(o), len(s_), o[-1:], s_[-1:],
                                             desc))
            lines = text.split('\n')
            if lines and lines[-1] == '':
                lines.pop()
            t2 = biom.Table.from_tsv(lines, None, None, lambda x: x)
            g = snap.snap(t2)
            if g.obs_ids != obs or g.samp_ids != samp or \
                    not snap.bits_equal(g.D, D):
                raise Violation('C03/roundtrip-differs/from_tsv_lines',
                                'scale: %r' % (desc,))
            ctx.count('scale_exports')
            ctx.case(desc, True)
