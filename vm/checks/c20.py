"""C20 -- the error-handling profile is honoured and scoped.

Monitors: M8 shadow model of the scoped configuration stack compared with
geterr()/geterrcall() after every step of a program; reaction observers
(exception type, recorded warnings, fd-level stdout, callback tap).
"""
import os
import sys
import warnings

import numpy as np

from vm.ctx import Violation

ID = 'C20'
TITLE = 'error profile honoured and scoped'
LEVEL = 'exploration'
RULE = ('index space = all programs of length<=D over a 14-step alphabet '
        '(D=3 quick, 4 thorough), each run bare and inside 6 errstate '
        'wrappers (normal/exception exit), then random nested programs of '
        'length<=30, then the 7x5x{trigger,clean}xcall-site reaction matrix; '
        'a program is non-trivial if it has an errstate left by exception or '
        'a refused call; a reaction case is non-trivial if the input triggers '
        'the kind; distinct = distinct (program text | reaction tuple)')
ASSUMPTIONS = [
    'single-threaded use: the profile is a process global by design',
    'inputs trigger exactly one error kind (errcheck stops at the first '
    'triggered kind in name order)',
    "update_ids(inplace=True) with duplicates raises unconditionally by "
    "design (upstream #892) and is not used as a call site",
    'callbacks registered with seterrcall are global, not scoped by '
    'errstate (the statement scopes the reactions profile only)',
]
ANCHORS = ['ErrorProfile.register', 'ErrorProfile.unregister', 'ErrorProfile.test', 'ErrorProfile._handle_error', 'seterr', 'geterr', 'seterrcall', 'geterrcall', 'errcheck', 'errstate']
REQUIRED = ['own_profile_falsy_callable_callbacks', 'own_profile_tests', 'own_profile_refusals', 'loud_reactions_checked', 'errstate_prebuilt_blocks',
            'errstate_decorated_then_profile_changed', 'two_kind_reactions_checked', 'refused_calls_naming_all', 'steps_checked', 'errstate_decorated_calls',
            'errstate_exception_exits', 'refused_calls',
            'reaction_raise', 'reaction_ignore', 'reaction_warn',
            'reaction_print', 'reaction_call', 'reaction_clean_inputs']

KINDS = ['empty', 'obssize', 'sampsize', 'obsdup', 'sampdup', 'obsmdsize',
         'sampmdsize']
STATES = ['raise', 'ignore', 'warn', 'print', 'call']
DEFAULT = {k: 'raise' for k in KINDS}
DEFAULT['empty'] = 'ignore'
MSG = {
    'empty': "Empty table!",
    'obssize': "Number of observation IDs differs from matrix size!",
    'sampsize': "Number of sample IDs differs from matrix size!",
    'obsdup': "Duplicate observation IDs",
    'sampdup': "Duplicate sample IDs!",
    'obsmdsize': "Size of observation metadata differs from matrix size!",
    'sampmdsize': "Size of sample metadata differs from matrix size!",
}

# ------------------------------------------------------------------ programs
_K2 = ['empty', 'obsdup']
_S3 = ['raise', 'ignore', 'warn']
BAD_FORMS = [{'all': 'raises'}, {'all': 'Raise'}, {'all': ''},
             {'all': None}, {'all': 1}, {'all': 'warn ', 'empty': 'raise'},
             {'empty': 'warn', 'all': 'bogus'},
             {'all': 'warn', 'nosuch': 'raise'}, {'ALL': 'raise'},
             {'Empty': 'raise'}, {'empty': None}, {'empty': 'RAISE'},
             {'empty': ' raise'}, {'obsdup': 'call', 'sampdup': 'Call'},
             {'all': 'print', 'obsdup': 'printf'}, {'empty ': 'raise'},
             {'obsmdsize': 'ignore', 'sampmdsize': 'ignored'},
             {'all': 'call', 'sampsize ': 'call'}]
ATOMS = ([('seterr', k, s) for k in _K2 for s in _S3] +
         [('seterr_all', s) for s in _S3] +
         [('badall',), ('all+badkind',),
          ('badkind',), ('badstate',), ('mixed',),
          ('setcall', 'empty'), ('setcall', 'obsdup')])
WRAPS = [None] + [(k, s, ex) for (k, s) in
                  [('empty', 'raise'), ('obsdup', 'ignore'), ('all', 'warn')]
                  for ex in ('normal', 'raise')]


def _nseq(depth):
    return sum(len(ATOMS) ** d for d in range(1, depth + 1))


def _decode_seq(i, depth):
    for d in range(1, depth + 1):
        n = len(ATOMS) ** d
        if i < n:
            out = []
            for _ in range(d):
                out.append(ATOMS[i % len(ATOMS)])
                i //= len(ATOMS)
            return out
        i -= n
    raise IndexError


def plan(tier):
    depth = 3 if tier == 'quick' else 4
    nexh = _nseq(depth) * len(WRAPS)
    nrand = 3000 if tier == 'quick' else 150000
    nreact = 4000 if tier == 'quick' else 60000
    return {'cases': nexh + nrand + nreact, 'shards': 16, 'depth': depth,
            'nexh': nexh, 'nrand': nrand, 'nreact': nreact,
            'exhaustive': False, 'min_nontrivial': 500,
            'timeout': 600 if tier == 'quick' else 3000}


class Boom(Exception):
    pass


class Model:
    def __init__(self):
        self.state = dict(DEFAULT)
        self.calls = {k: None for k in KINDS}


def _cb(tag):
    def f(t):
        return None
    f.tag = tag
    return f


_CBS = {}


def _reset(err):
    err.seterr(**DEFAULT)
    for k in KINDS:
        if k not in _CBS:
            _CBS[k] = err.geterrcall(k)
        err.seterrcall(k, _CBS[k])


def _check_profile(ctx, err, model, where, prog):
    got = err.geterr()
    ctx.count('steps_checked')
    if got != model.state:
        raise Violation('C20/profile-diverged',
                        'after %s geterr()=%r, reference stack says %r; '
                        'program=%r' % (where, got, model.state, prog))
    for k in KINDS:
        exp = model.calls[k]
        g = err.geterrcall(k)
        if exp is not None and g is not exp:
            raise Violation('C20/callback-diverged',
                            'after %s geterrcall(%s) is not the registered '
                            'callback; program=%r' % (where, k, prog))


def _exec(ctx, err, model, step, prog, depthlog):
    op = step[0]
    if op == 'seterr':
        before = dict(model.state)
        old = err.seterr(**{step[1]: step[2]})
        if old != before:
            raise Violation('C20/seterr-return',
                            'seterr returned %r, previous profile was %r' %
                            (old, before))
        model.state[step[1]] = step[2]
    elif op == 'seterr_multi':
        err.seterr(**step[1])
        model.state.update(step[1])
    elif op == 'seterr_all':
        err.seterr(all=step[1])
        for k in KINDS:
            model.state[k] = step[1]
    elif op in ('badkind', 'badstate', 'mixed', 'mixed2', 'badall',
                'all+badkind', 'all+badstate', 'badform'):
        kw = {'badkind': {'nosuchkind': 'raise'},
              'badstate': {'empty': 'explode'},
              'mixed': {'empty': 'warn', 'zzz_nosuch': 'raise'},
              'mixed2': {'obsdup': 'print', 'sampdup': 'bogus'},
              'badall': {'all': 'raises'},
              'all+badkind': {'all': 'warn', 'nosuchkind': 'raise'},
              'all+badstate': {'all': 'ignore', 'empty': 'explode'}}.get(op)
        if op == 'badform':
            # step[1] picks one of many near-miss spellings
            kw = BAD_FORMS[step[1] % len(BAD_FORMS)]
        via = step[2] if len(step) > 2 else 'seterr'
        try:
            if via == 'seterr':
                err.seterr(**kw)
            else:
                with err.errstate(**kw):
                    pass
        except Exception:
            ctx.count('refused_calls')
            if 'all' in kw:
                ctx.count('refused_calls_naming_all')
        else:
            raise Violation('C20/not-refused', '%s(**%r) was accepted; '
                            'program=%r' % (via, kw, prog))
    elif op == 'setcall':
        f = _cb('%s-%d' % (step[1], ctx.counters.get('steps_checked', 0)))
        old = err.seterrcall(step[1], f)
        if model.calls[step[1]] is not None and old is not model.calls[
                step[1]]:
            raise Violation('C20/seterrcall-return', 'seterrcall did not '
                            'return the previous callback')
        model.calls[step[1]] = f
    elif op == 'setcall_bad':
        try:
            err.seterrcall('nosuchkind', _cb('x'))
        except Exception:
            ctx.count('refused_calls')
        else:
            raise Violation('C20/not-refused', 'seterrcall(unknown kind) '
                            'accepted')
    elif op == 'errstate_bad':
        try:
            with err.errstate(**{'empty': 'raise', 'nosuch': 'warn'}):
                pass
        except Exception:
            ctx.count('refused_calls')
        else:
            raise Violation('C20/not-refused', 'errstate with unknown kind '
                            'accepted')
    elif op == 'errstate_deco':
        # the scoped override used as a decorator, on a function that calls
        # itself (and a second function sharing the same decorator object)
        _, kw, depth, exit_ = step[:4]
        pre = step[4] if len(step) > 4 else []
        cm = err.errstate(**kw)
        seen = []

        @cm
        def g():
            seen.append(err.geterr())

        @cm
        def f(d):
            seen.append(err.geterr())
            if d:
                f(d - 1)
                g()
            elif exit_ == 'raise':
                raise Boom()
        # the functions are decorated; the profile may change before they
        # are called
        for s_ in pre:
            _exec(ctx, err, model, s_, prog, depthlog)
            _check_profile(ctx, err, model, 'step %r (before a decorated '
                           'call)' % (s_,), prog)
        if pre:
            ctx.count('errstate_decorated_then_profile_changed')
        saved = dict(model.state)
        inside = dict(saved)
        if 'all' in kw:
            inside = {k: kw['all'] for k in KINDS}
        else:
            inside.update(kw)
        try:
            f(depth)
        except Boom:
            ctx.count('errstate_exception_exits')
        except (RuntimeError, TypeError, AttributeError):
            # this errstate object cannot be used as a decorator / re-entered:
            # refused use, nothing to check but the restoration below
            ctx.count('errstate_decorator_unsupported')
        else:
            ctx.count('errstate_decorated_calls')
        for st in seen:
            if st != inside:
                raise Violation('C20/decorated-block-profile', 'inside a '
                                'function decorated with errstate(%r) the '
                                'profile was %r, expected %r' % (kw, st,
                                                                 inside))
        model.state = saved
    elif op in ('errstate', 'errstate_prebuilt'):
        if op == 'errstate_prebuilt':
            # the override object is built first, the profile is changed,
            # and only then is the block entered: "previous profile" is the
            # one in force when the block starts
            _, kw, pre, body, exit_ = step
            cm = err.errstate(**kw)
            for s in pre:
                _exec(ctx, err, model, s, prog, depthlog)
                _check_profile(ctx, err, model, 'step %r (before a prebuilt '
                               'block)' % (s,), prog)
            ctx.count('errstate_prebuilt_blocks')
        else:
            _, kw, body, exit_ = step
            cm = err.errstate(**kw)
        saved = dict(model.state)
        try:
            with cm:
                if 'all' in kw:
                    for k in KINDS:
                        model.state[k] = kw['all']
                else:
                    model.state.update(kw)
                _check_profile(ctx, err, model, 'errstate entry %r' % (kw,),
                               prog)
                for s in body:
                    _exec(ctx, err, model, s, prog, depthlog)
                    _check_profile(ctx, err, model, 'step %r (in block)' %
                                   (s,), prog)
                if exit_ == 'raise':
                    raise Boom()
        except Boom:
            ctx.count('errstate_exception_exits')
        else:
            ctx.count('errstate_normal_exits')
        model.state = saved
    else:
        raise AssertionError(step)


def _is_nontrivial(prog):
    for s in prog:
        if s[0] in ('badkind', 'badstate', 'mixed', 'mixed2', 'setcall_bad',
                    'errstate_bad', 'badall', 'all+badkind', 'all+badstate',
                    'badform'):
            return True
        if s[0] == 'errstate' and (s[3] == 'raise' or _is_nontrivial(s[2])):
            return True
        if s[0] in ('errstate_deco', 'errstate_prebuilt'):
            return True
    return False


def _rand_prog(r, maxlen, depth=0):
    prog = []
    for _ in range(r.randint(1, maxlen)):
        x = r.random()
        if x < .06:
            kw = {'all': r.choice(STATES)} if r.random() < .3 else \
                {k: r.choice(STATES) for k in r.sample(KINDS, r.randint(1,
                                                                        3))}
            pre = [('seterr_multi', {k: r.choice(STATES) for k in
                                     r.sample(KINDS, r.randint(1, 3))})] \
                if r.random() < .5 else []
            prog.append(('errstate_deco', kw, r.randint(0, 3),
                         r.choice(['normal', 'raise']), pre))
        elif x < .25 and depth < 4:
            if r.random() < .25:
                kw = {'all': r.choice(STATES)}
            else:
                kw = {k: r.choice(STATES) for k in r.sample(KINDS,
                                                            r.randint(1, 3))}
            if r.random() < .3:
                pre = [('seterr_multi', {k: r.choice(STATES) for k in
                                         r.sample(KINDS, r.randint(1, 3))})]
                if r.random() < .3:
                    pre.append(('seterr_all', r.choice(STATES)))
                prog.append(('errstate_prebuilt', kw, pre,
                             _rand_prog(r, 3, depth + 1),
                             r.choice(['normal', 'raise'])))
            else:
                prog.append(('errstate', kw, _rand_prog(r, 4, depth + 1),
                             r.choice(['normal', 'raise'])))
        elif x < .5:
            prog.append(('seterr_multi', {k: r.choice(STATES) for k in
                                          r.sample(KINDS, r.randint(1, 4))}))
        elif x < .6:
            prog.append(('seterr_all', r.choice(STATES)))
        elif x < .8:
            if r.random() < .5:
                prog.append(('badform', r.randrange(len(BAD_FORMS)),
                             r.choice(['seterr', 'errstate'])))
            else:
                prog.append((r.choice(['badkind', 'badstate', 'mixed',
                                       'mixed2', 'setcall_bad',
                                       'errstate_bad', 'badall',
                                       'all+badkind', 'all+badstate']),))
        else:
            prog.append(('setcall', r.choice(KINDS)))
    return prog


def run_program(ctx, prog):
    err = ctx.err
    _reset(err)
    model = Model()
    try:
        _check_profile(ctx, err, model, 'reset', prog)
        for s in prog:
            _exec(ctx, err, model, s, prog, None)
            _check_profile(ctx, err, model, 'step %r' % (s,), prog)
    finally:
        _reset(err)


# ----------------------------------------------------------------- reactions
def _inputs(kind, variant=0):
    """(constructor args) triggering exactly `kind`."""
    D = np.array([[1., 2.], [3., 4.]])
    if kind in ('obsmdsize', 'sampmdsize') and variant % 4:
        # wrong-sized metadata made only of nulls / empty mappings
        md = [[None, None, None], [{}], [None, {}, None, {}]][variant % 4 - 1]
        a = dict(data=D, observation_ids=['o1', 'o2'],
                 sample_ids=['s1', 's2'])
        a['observation_metadata' if kind == 'obsmdsize' else
          'sample_metadata'] = md
        return a
    if kind in ('obsdup', 'sampdup') and variant % 2:
        D = np.array([[1., 2., 0.], [3., 4., 5.], [0., 0., 6.]])
        a = dict(data=D, observation_ids=['o1', 'o2', 'o3'],
                 sample_ids=['s1', 's2', 's3'])
        a['observation_ids' if kind == 'obsdup' else 'sample_ids'] = \
            ['x', 'y', 'x']
        return a
    a = dict(data=D, observation_ids=['o1', 'o2'], sample_ids=['s1', 's2'])
    if kind == 'empty':
        a = dict(data=[], observation_ids=[], sample_ids=[])
    elif kind == 'obssize':
        a['observation_ids'] = ['o1', 'o1', 'o2']
    elif kind == 'sampsize':
        a['sample_ids'] = ['s1', 's1', 's2']
    elif kind == 'obsdup':
        a['observation_ids'] = ['o1', 'o1']
    elif kind == 'sampdup':
        a['sample_ids'] = ['s1', 's1']
    elif kind == 'obsmdsize':
        a['observation_metadata'] = [{'a': 1}, {'a': 2}, {'a': 3}]
    elif kind == 'sampmdsize':
        a['sample_metadata'] = [{'a': 1}]
    elif kind is None:
        pass
    return a


def _sites(kind):
    s = ['ctor']
    if kind == 'empty':
        s += ['filter', 'collapse', 'errcheck', 'remove_empty', 'subsample',
              'partition', 'update_ids-inplace']
    if kind in ('obsdup', 'sampdup'):
        s += ['update_ids', 'copy', 'derive', 'filter-inplace']
    return s


def _call_site(ctx, kind, site, trigger, variant=0):
    """Returns a thunk performing the offending (or clean) operation and the
    ids the offending table is expected to carry."""
    Table = ctx.biom.Table
    if site == 'ctor':
        a = _inputs(kind if trigger else None, variant)
        return (lambda: Table(**a)), (list(a['observation_ids']),
                                      list(a['sample_ids']))
    base = Table(np.array([[1., 2.], [3., 4.]]), ['o1', 'o2'], ['s1', 's2'])
    if site == 'filter':
        keep = [] if trigger else ['s1']
        return (lambda: base.filter(keep, inplace=False)), (
            ['o1', 'o2'], keep)
    if site == 'collapse':
        if trigger:
            with ctx.err.errstate(empty='ignore'):
                e = Table([], [], [])
            return (lambda: e.collapse(lambda i, m: 'g', norm=False)), (
                [], [])
        return (lambda: base.collapse(lambda i, m: 'g', norm=False)), (
            ['o1', 'o2'], ['s1', 's2'])
    if site in ('remove_empty', 'subsample', 'partition'):
        # operations that end with nothing left report it (one offending
        # table per internal step: the count is the library's business)
        zero = Table(np.zeros((2, 2)), ['o1', 'o2'], ['s1', 's2'])
        src = zero if trigger else base
        how = variant % 3
        if site == 'remove_empty':
            ax = ['whole', 'sample', 'observation'][how]
            return (lambda: src.remove_empty(axis=ax,
                                             inplace=bool(variant % 2))), None
        if site == 'subsample':
            if how == 0:
                return (lambda: base.subsample(100 if trigger else 2)), None
            return (lambda: src.subsample(3, with_replacement=True)), None
        return (lambda: list(src.partition(lambda i, m: 'a',
                                           remove_empty=True))), None
    if site == 'errcheck':
        if trigger:
            with ctx.err.errstate(empty='ignore'):
                e = Table([], [], [])
            return (lambda: ctx.err.errcheck(e, 'empty')), ([], [])
        return (lambda: ctx.err.errcheck(base, 'empty')), (['o1', 'o2'],
                                                           ['s1', 's2'])
    if site == 'update_ids-inplace':
        # a table an earlier filter left without samples (while that was
        # tolerated) is renamed in place under the profile in force now: the
        # renamed receiver is judged like any other result
        if trigger:
            with ctx.err.errstate(empty='ignore'):
                e = base.filter([], inplace=False)
        else:
            e = base
        return (lambda: e.update_ids({'o1': 'x1'}, axis='observation',
                                     strict=False, inplace=True)), None
    if site == 'filter-inplace':
        # ... and an in-place filter judges its receiver
        # when it is done, whatever that receiver was like before
        ids_o = ['o1', 'o1'] if (trigger and kind == 'obsdup') else ['o1',
                                                                     'o2']
        ids_s = ['s1', 's1'] if (trigger and kind == 'sampdup') else ['s1',
                                                                      's2']
        with ctx.err.errstate(obsdup='ignore', sampdup='ignore'):
            src = Table(np.array([[1., 2.], [3., 4.]]), ids_o, ids_s)
        # (by predicate: a filter by id list cannot keep both of two equal
        # ids, which is why remove_empty is not a site here)
        ax = 'sample' if variant % 2 == 0 else 'observation'
        return (lambda: src.filter(lambda v, i, m: True, axis=ax,
                                   inplace=True)), (ids_o, ids_s)
    if site in ('copy', 'derive'):
        # a table that was put together while repeated ids were tolerated is
        # copied (or a new table derived from it) under the profile in force
        # now: the new table is constructed, so it is judged
        ids_o = ['o1', 'o1'] if (trigger and kind == 'obsdup') else ['o1',
                                                                     'o2']
        ids_s = ['s1', 's1'] if (trigger and kind == 'sampdup') else ['s1',
                                                                      's2']
        with ctx.err.errstate(obsdup='ignore', sampdup='ignore'):
            src = Table(np.array([[1., 2.], [3., 4.]]), ids_o, ids_s)
        if site == 'copy':
            return (lambda: src.copy()), (ids_o, ids_s)
        how = variant % 3
        if how == 0:
            return (lambda: src.norm(inplace=False)), (ids_o, ids_s)
        if how == 1:
            return (lambda: src.pa(inplace=False)), (ids_o, ids_s)
        return (lambda: src.transform(lambda v, i, m: v + 1,
                                      inplace=False)), (ids_o, ids_s)
    if site == 'update_ids':
        axis = 'observation' if kind == 'obsdup' else 'sample'
        ids = ['o1', 'o2'] if axis == 'observation' else ['s1', 's2']
        m = {ids[0]: 'dup', ids[1]: 'dup'} if trigger else \
            {ids[0]: 'n1', ids[1]: 'n2'}
        new = [m[i] for i in ids]
        exp = (new, ['s1', 's2']) if axis == 'observation' else (['o1', 'o2'],
                                                                 new)
        return (lambda: base.update_ids(m, axis=axis, inplace=False)), exp
    raise AssertionError(site)


def run_reaction(ctx, r, index):
    err = ctx.err
    TableException = ctx.TableException
    kind = KINDS[index % 7]
    state = STATES[(index // 7) % 5]
    trigger = (index // 35) % 2 == 0
    sites = _sites(kind)
    site = sites[(index // 70) % len(sites)]
    others = {k: r.choice(STATES) for k in KINDS if k != kind}
    desc = {'reaction': [kind, state, 'trigger' if trigger else 'clean',
                         site], 'others': others}
    _reset(err)
    calls = []

    def cb(t):
        calls.append(t)
    try:
        variant = (index // 70)
        thunk, exp_ids = _call_site(ctx, kind, site, trigger, variant)
        desc['variant'] = variant % 4
        err.seterr(**dict(others, **{kind: state}))
        for k in KINDS:
            err.seterrcall(k, cb if k == kind else (lambda t: calls.append(
                ('WRONG-KIND', t))))
        sys.stdout.flush()
        pos = os.fstat(1).st_size if ctx.fd1_file else 0
        raised = None
        with warnings.catch_warnings(record=True) as w:
            warnings.simplefilter('always')
            try:
                thunk()
            except TableException as e:
                raised = e
        sys.stdout.flush()
        printed = ''
        if ctx.fd1_file:
            with open(ctx.fd1_file) as f:
                f.seek(pos)
                printed = f.read()
        wmsgs = [str(x.message) for x in w
                 if '/biom/' in (x.filename or '') or str(x.message) in
                 MSG.values()]
        obs = {'raised': str(raised) if raised else None, 'warnings': wmsgs,
               'printed': printed, 'callbacks': len(calls)}
        exp = {'raised': None, 'warnings': [], 'printed': '', 'callbacks': 0}
        if trigger:
            ctx.count('reaction_' + state)
            if state == 'raise':
                exp['raised'] = MSG[kind]
            elif state == 'warn':
                exp['warnings'] = [MSG[kind]]
            elif state == 'print':
                exp['printed'] = MSG[kind] + '\n'
            elif state == 'call':
                exp['callbacks'] = 1
        else:
            ctx.count('reaction_clean_inputs')
        if site in ('remove_empty', 'subsample', 'partition') and trigger:
            # one or more identical reactions (see _call_site)
            if obs['warnings'] and set(obs['warnings']) == set(
                    exp['warnings']):
                obs['warnings'] = exp['warnings']
            if exp['printed'] and obs['printed'] and \
                    obs['printed'].replace(exp['printed'], '') == '':
                obs['printed'] = exp['printed']
            if exp['callbacks'] == 1 and obs['callbacks'] >= 1:
                obs['callbacks'] = 1
        if site == 'collapse' and trigger:
            # collapse checks the receiver and then constructs the (equally
            # empty) result, whose constructor checks again: two offending
            # tables, so one or two identical reactions are both right.
            if obs['warnings'] == exp['warnings'] * 2:
                obs['warnings'] = exp['warnings']
            if obs['printed'] == exp['printed'] * 2:
                obs['printed'] = exp['printed']
            if obs['callbacks'] == 2 and exp['callbacks'] == 1:
                obs['callbacks'] = 1
        if obs != exp:
            raise Violation('C20/reaction-%s-%s' % (
                state if trigger else 'clean', site),
                'kind=%s state=%s %s at %s: observed %r, expected %r' % (
                    kind, state, 'triggering' if trigger else 'clean', site,
                    obs, exp))
        if trigger and state == 'call' and exp_ids is not None:
            t = calls[0]
            if isinstance(t, tuple):
                raise Violation('C20/callback-wrong-kind',
                                'callback of another kind invoked')
            got = ([str(i) for i in t.ids(axis='observation')],
                   [str(i) for i in t.ids()])
            if got != (list(exp_ids[0]), list(exp_ids[1])):
                raise Violation('C20/callback-wrong-table',
                                'callback got ids %r, offending input has %r'
                                % (got, exp_ids))
            ctx.count('callback_table_checked')
    finally:
        _reset(err)
    ctx.case(desc, trigger)


PAIRS = [
    (('empty', 'sampdup'), lambda: dict(data=np.empty((0, 2)),
                                        observation_ids=[],
                                        sample_ids=['a', 'a'])),
    (('empty', 'obsdup'), lambda: dict(data=np.empty((2, 0)),
                                       observation_ids=['a', 'a'],
                                       sample_ids=[])),
    (('obsdup', 'sampdup'), lambda: dict(data=np.array([[1., 2.], [3., 4.]]),
                                         observation_ids=['a', 'a'],
                                         sample_ids=['b', 'b'])),
    (('obsmdsize', 'sampmdsize'), lambda: dict(
        data=np.array([[1., 2.], [3., 4.]]), observation_ids=['o1', 'o2'],
        sample_ids=['s1', 's2'], observation_metadata=[{'a': 1}] * 3,
        sample_metadata=[{'a': 1}])),
    (('obssize', 'sampsize'), lambda: dict(
        data=np.array([[1., 2.], [3., 4.]]),
        observation_ids=['o1', 'o2', 'o3'], sample_ids=['s1'])),
]


def run_two_kinds(ctx, r, index):
    """One construction that offends two kinds at once: every kind gets its
    own configured reaction; a reaction that does not raise (warn, print,
    call, ignore) for one kind does not excuse the other."""
    err = ctx.err
    TableException = ctx.TableException
    (ka, kb), mk = PAIRS[index % len(PAIRS)]
    sa = STATES[(index // len(PAIRS)) % 5]
    sb = STATES[(index // (5 * len(PAIRS))) % 5]
    desc = {'two_kinds': [[ka, sa], [kb, sb]]}
    _reset(err)
    calls = []
    try:
        prof = {k: 'ignore' for k in KINDS}
        prof.update({ka: sa, kb: sb})
        err.seterr(**prof)
        for k in KINDS:
            err.seterrcall(k, (lambda kk: lambda t: calls.append(kk))(k))
        sys.stdout.flush()
        pos = os.fstat(1).st_size if ctx.fd1_file else 0
        raised = None
        with warnings.catch_warnings(record=True) as w:
            warnings.simplefilter('always')
            try:
                ctx.biom.Table(**mk())
            except TableException as e:
                raised = str(e)
        sys.stdout.flush()
        printed = ''
        if ctx.fd1_file:
            with open(ctx.fd1_file) as f:
                f.seek(pos)
                printed = f.read()
        wmsgs = [str(x.message) for x in w if str(x.message) in MSG.values()]
        states = {ka: sa, kb: sb}
        raising = [k for k in (ka, kb) if states[k] == 'raise']
        problems = []
        if raising:
            if raised is None:
                problems.append('nothing was raised although %s is set to '
                                'raise' % raising)
            elif raised not in [MSG[k] for k in raising]:
                problems.append('raised %r, expected the message of %s' %
                                (raised, raising))
        elif raised is not None:
            problems.append('raised %r although no offended kind is set to '
                            'raise' % raised)
        for k in (ka, kb):
            n_w = wmsgs.count(MSG[k])
            n_p = printed.count(MSG[k] + '\n') if ctx.fd1_file else None
            n_c = calls.count(k)
            want = {'warn': (1, 0, 0), 'print': (0, 1, 0),
                    'call': (0, 0, 1)}.get(states[k], (0, 0, 0))
            got = (n_w, n_p if n_p is not None else want[1], n_c)
            if raising and states[k] != 'raise':
                # may or may not have been reached before the raise
                if any(g > x for g, x in zip(got, want)):
                    problems.append('%s (%s): reactions %r exceed %r' %
                                    (k, states[k], got, want))
            elif got != want:
                problems.append('%s (%s): warnings/prints/callbacks %r, '
                                'expected %r' % (k, states[k], got, want))
        other = [c for c in calls if c not in (ka, kb)]
        if other:
            problems.append('callbacks of kinds not offended: %r' % other)
        if problems:
            raise Violation('C20/two-kinds-reaction', '%s; case=%r' %
                            ('; '.join(problems), desc))
        ctx.count('two_kind_reactions_checked')
    finally:
        _reset(err)
    ctx.case(desc, True)


def run_loud_reaction(ctx, r, index):
    """The reaction itself may be loud: a warning while warnings are turned
    into errors reaches the caller as that warning; a callback that raises
    has still been invoked, exactly once, with the offending table."""
    err = ctx.err
    kind = KINDS[index % 7]
    mode = ['warn-as-error', 'raising-callback'][(index // 7) % 2]
    desc = {'loud_reaction': [kind, mode]}
    _reset(err)
    calls = []

    def cb(t):
        calls.append(t)
        raise Boom('callback failed')
    try:
        prof = {k: 'ignore' for k in KINDS}
        prof[kind] = 'warn' if mode == 'warn-as-error' else 'call'
        err.seterr(**prof)
        err.seterrcall(kind, cb)
        got = None
        with warnings.catch_warnings():
            warnings.simplefilter('error')
            try:
                ctx.biom.Table(**_inputs(kind))
            except Warning as w:
                got = ('warning', str(w))
            except Boom:
                got = ('boom', None)
            except ctx.TableException as e:
                got = ('table-error', str(e))
        if mode == 'warn-as-error':
            if got != ('warning', MSG[kind]):
                raise Violation('C20/warning-not-delivered', 'kind %s set to '
                                'warn, warnings turned into errors: the '
                                'caller saw %r, expected the warning %r' %
                                (kind, got, MSG[kind]))
        else:
            if len(calls) != 1:
                raise Violation('C20/reaction-call-ctor', 'kind %s set to '
                                'call with a callback that raises: invoked '
                                '%d times' % (kind, len(calls)))
        ctx.count('loud_reactions_checked')
    finally:
        _reset(err)
    ctx.case(desc, True)


# ------------------------------------------------------------------- driver
def run_own_profile(ctx, r, index):
    """A profile of one's own: `ErrorProfile()` with kinds registered by the
    caller (name, message, default reaction, test, callback, exception
    type), driven by random steps and compared with a reference model after
    each: the configured reaction of every registered kind is what `test`
    does, kinds are looked at in name order, the first `raise` ends the
    test and its exception is what comes back, an unknown kind / reaction /
    a second registration under the same name is refused and changes
    nothing, an unregistered kind is gone."""
    import contextlib
    import io as _io
    import warnings
    from biom.err import ErrorProfile
    prof = ErrorProfile()
    model = {}          # name -> dict(state, pred, msg, cb, exc)
    names = ['k_%s' % c for c in 'abcde']
    REACT = ['raise', 'ignore', 'call', 'print', 'warn']
    called = []

    class MyErr(Exception):
        pass
    steps = []
    desc = {'own_profile_steps': steps}

    def bad(what, msg):
        raise Violation('C20/own-profile/' + what, '%s; case=%r' % (msg, desc))

    def mk_pred(mod, rem):
        return lambda item: item % mod == rem
    for _ in range(r.randint(6, 14)):
        op = r.choice(['register', 'register', 'state', 'state', 'test',
                       'test', 'test', 'setcall', 'unregister',
                       'register-bad', 'state-bad'])
        if op == 'register':
            nm = r.choice(names)
            st = r.choice(REACT)
            mod, rem = r.randint(1, 3), 0
            msg = 'message of %s #%d' % (nm, len(steps))
            exc = r.choice([Exception, MyErr, ValueError])
            withcb = r.random() < .5
            tag = '%s-cb%d' % (nm, len(steps))
            cb = (lambda item, tag=tag: called.append((tag, item))) \
                if withcb else None
            if withcb and r.random() < .4:
                # a callable object that is falsy while it has recorded
                # nothing (a list with __call__) is a callback all the same
                class Recorder(list):
                    def __call__(self, item, tag=tag):
                        called.append((tag, item))
                        self.append(item)
                cb = Recorder()
                ctx.count('own_profile_falsy_callable_callbacks')
            steps.append(('register', nm, st, mod, exc.__name__, withcb))
            try:
                prof.register(nm, msg, st, mk_pred(mod, rem), callback=cb,
                              exception=exc)
            except KeyError:
                if nm not in model:
                    bad('register-refused', 'a new kind %r was refused' % nm)
                ctx.count('own_profile_refusals')
            else:
                if nm in model:
                    bad('registered-twice', '%r was registered a second '
                        'time' % nm)
                model[nm] = {'state': st, 'mod': mod, 'msg': msg,
                             'cb': tag if withcb else None, 'exc': exc}
        elif op == 'register-bad':
            nm = 'fresh_%d' % len(steps)
            steps.append(('register', nm, 'explode'))
            try:
                prof.register(nm, 'm', r.choice(['explode', 'Raise', '', None]),
                              lambda x: True)
            except KeyError:
                ctx.count('own_profile_refusals')
            else:
                bad('unknown-reaction-registered', nm)
            if nm in prof:
                bad('refused-registration-left-a-kind', nm)
        elif op == 'state':
            req = {}
            for nm in r.sample(names, r.randint(1, 2)):
                req[nm] = r.choice(REACT)
            if r.random() < .2:
                req = {'all': r.choice(REACT)}
            steps.append(('state', dict(req)))
            unknown = [k for k in req if k != 'all' and k not in model]
            try:
                prof.state = req
            except KeyError:
                if not unknown:
                    bad('state-refused', 'request %r over kinds %r' %
                        (req, sorted(model)))
                ctx.count('own_profile_refusals')
            else:
                if unknown:
                    bad('unknown-kind-accepted', 'request %r over kinds %r' %
                        (req, sorted(model)))
                if 'all' in req:
                    for nm in model:
                        model[nm]['state'] = req['all']
                else:
                    for nm, st in req.items():
                        model[nm]['state'] = st
        elif op == 'state-bad':
            if not model:
                continue
            nm = r.choice(sorted(model))
            other = [k for k in sorted(model) if k != nm]
            req = {nm: 'explode'}
            if other:
                req[other[0]] = r.choice(REACT)
            steps.append(('state', dict(req)))
            try:
                prof.state = req
            except KeyError:
                ctx.count('own_profile_refusals')
            else:
                bad('unknown-reaction-accepted', repr(req))
        elif op == 'setcall':
            nm = r.choice(names)
            tag = '%s-set%d' % (nm, len(steps))
            steps.append(('setcall', nm))
            try:
                prof.setcall(nm, lambda item, tag=tag: called.append((tag,
                                                                      item)))
            except KeyError:
                if nm in model:
                    bad('setcall-refused', nm)
                ctx.count('own_profile_refusals')
            else:
                if nm not in model:
                    bad('setcall-unknown-kind-accepted', nm)
                model[nm]['cb'] = tag
        elif op == 'unregister':
            nm = r.choice(names)
            steps.append(('unregister', nm))
            try:
                got = prof.unregister(nm)
            except KeyError:
                if nm in model:
                    bad('unregister-refused', nm)
                ctx.count('own_profile_refusals')
            else:
                if nm not in model:
                    bad('unregister-unknown-kind-accepted', nm)
                if got[2] != model[nm]['state']:
                    bad('unregister-state', '%r vs %r' % (got[2],
                                                          model[nm]['state']))
                del model[nm]
                if nm in prof:
                    bad('unregistered-kind-still-there', nm)
        else:
            item = r.randint(0, 6)
            kinds = sorted(model)
            if kinds and r.random() < .4:
                kinds = sorted(r.sample(kinds, r.randint(1, len(kinds))))
                args = list(kinds)
                r.shuffle(args)
            else:
                args = []
            steps.append(('test', item, list(args)))
            exp_w, exp_p, exp_c, exp_ret = [], [], [], None
            for nm in kinds:
                m = model[nm]
                if item % m['mod'] != 0 or m['state'] == 'ignore':
                    continue
                if m['state'] == 'raise':
                    exp_ret = (m['exc'], m['msg'])
                    break
                if m['state'] == 'warn':
                    exp_w.append(m['msg'])
                elif m['state'] == 'print':
                    exp_p.append(m['msg'])
                elif m['cb'] is not None:
                    exp_c.append((m['cb'], item))
            del called[:]
            out = _io.StringIO()
            with warnings.catch_warnings(record=True) as wlog, \
                    contextlib.redirect_stdout(out):
                warnings.simplefilter('always')
                import biom.err as _e
                old, _e.stdout = _e.stdout, out
                try:
                    ret = prof.test(item, *args)
                finally:
                    _e.stdout = old
            got_w = [str(w.message) for w in wlog]
            got_p = [ln for ln in out.getvalue().split('\n') if ln]
            if exp_ret is None:
                ok_ret = not isinstance(ret, Exception)
            else:
                ok_ret = type(ret) is exp_ret[0] and str(ret) == exp_ret[1]
            if got_w != exp_w or got_p != exp_p or called != exp_c or \
                    not ok_ret:
                bad('reaction', 'test(%r, %r) over %r: warnings %r (expected '
                    '%r), printed %r (%r), callbacks %r (%r), returned %r '
                    '(expected %r)' % (
                        item, args, {k: (v['state'], v['mod'])
                                     for k, v in model.items()}, got_w,
                        exp_w, got_p, exp_p, list(called), exp_c, ret,
                        exp_ret))
            ctx.count('own_profile_tests')
        # the profile after every step
        st = dict(prof.state)
        if st != {k: v['state'] for k, v in model.items()}:
            bad('state', 'profile %r, model %r' % (st, {
                k: v['state'] for k, v in model.items()}))
        for nm in names:
            if (nm in prof) != (nm in model):
                bad('membership', nm)
    ctx.count('own_profile_programs')
    ctx.case(desc, len(steps) >= 4)


def calibrate_messages(ctx):
    """The text of each kind's message is not part of the property; what
    is, is that 'warn' and 'print' emit the message of that kind.  The
    reference text is what 'raise' produces for the same kind."""
    err = ctx.err
    for kind in KINDS:
        _reset(err)
        err.seterr(**{k: ('raise' if k == kind else 'ignore')
                      for k in KINDS})
        try:
            ctx.biom.Table(**_inputs(kind))
        except ctx.TableException as e:
            MSG[kind] = str(e)
        except Exception:
            pass
    _reset(err)


def setup(ctx):
    import biom.err
    from biom.exception import TableException
    ctx.err = biom.err
    ctx.TableException = TableException
    # observe the 'print' reaction at file-descriptor level: biom.err bound
    # sys.stdout at import time, so fd 1 is what it writes to.
    ctx.fd1_file = ctx.path('fd1.txt')
    fd = os.open(ctx.fd1_file, os.O_WRONLY | os.O_CREAT | os.O_TRUNC)
    sys.stdout.flush()
    os.dup2(fd, 1)
    os.close(fd)
    if biom.err.stdout is not sys.stdout:
        ctx.count('stdout_object_differs')
    calibrate_messages(ctx)


def run_case(ctx, index):
    p = plan(ctx.tier)
    if index < p['nexh']:
        wrap = WRAPS[index % len(WRAPS)]
        seq = _decode_seq(index // len(WRAPS), p['depth'])
        if wrap is None:
            prog = seq
        else:
            k, s, ex = wrap
            prog = [('errstate', {k: s}, seq, ex)]
        if index % 5 == 0 and wrap is not None:
            # second nesting level around the same body
            prog = [('seterr', 'obsdup', 'warn'),
                    ('errstate', {'empty': 'print'}, prog, 'raise')]
        ctx.count('programs_exhaustive')
    elif index < p['nexh'] + p['nrand']:
        r = ctx.rng(index)
        prog = _rand_prog(r, 30 if r.random() < .2 else 8)
        ctx.count('programs_random')
    else:
        r = ctx.rng(index)
        k = index - p['nexh'] - p['nrand']
        if k % 8 == 3:
            run_own_profile(ctx, r, k // 8)
        elif k % 8 == 5:
            run_two_kinds(ctx, r, k // 8)
        elif k % 16 == 7:
            run_loud_reaction(ctx, r, k // 16)
        else:
            run_reaction(ctx, r, k)
        return
    try:
        run_program(ctx, prog)
    except Violation as v:
        v.desc = {'program': prog}
        raise
    ctx.case({'program': prog}, _is_nontrivial(prog))


def summarize(counters, extra, tier):
    p = plan(tier)
    return {'exhaustive_scope': 'all %d programs of length<=%d over %d atomic '
            'steps x %d wrappers' % (p['nexh'], p['depth'], len(ATOMS),
                                     len(WRAPS))}
