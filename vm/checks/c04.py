"""C04 -- written HDF5 files conform to BIOM 2.1; both matrix views agree.

Monitors: independent decoder of the file (vm/h5spec.py, raw h5py, written
from doc/documentation/format_versions/biom-2.1.rst).
"""
import os

import h5py
import numpy as np

from vm import gen, snap, h5spec
from vm.ctx import Violation
from vm.checks import _hdf5

ID = 'C04'
TITLE = 'written HDF5 conforms to BIOM 2.1'
LEVEL = 'exploration'
RULE = ('the C01 workload (same generator) plus 0xM / Nx0 tables (every 9th '
        'case), all-zero tables, tables whose stored entries were zeroed in '
        'place through matrix_data, and files written by `biom convert '
        '--to-hdf5`; every file is decoded by the independent spec decoder. '
        'Non-trivial: >=1 non-zero and (>=2 ids on an axis or metadata or a '
        'non-ASCII / "/" id), and every empty-axis / all-zero case; distinct '
        '= distinct (table, layout, history, write configuration)')
ASSUMPTIONS = [
    'the element-type check of an ids dataset is skipped when it is empty '
    '(no element exists)',
    'unsorted indices inside a row are allowed (the spec does not forbid '
    'them); duplicates are detected by decoding twice (assign / accumulate)',
]
ANCHORS = ['Table.to_hdf5', 'general_formatter', 'vlen_list_of_str_formatter', '_convert']
REQUIRED = ['numpy_scalar_metadata_categories', 'collapsed_conversions_checked', 'list_category_under_other_name', 'group_metadata_decoded', 'reserved_category_user_formatter', 'ragged_metadata_cases', 'format_fs_writes', 'spec_decodes', 'empty_axis_tables', 'all_zero_tables',
            'cli_convert_files', 'layout_csc_seen', 'layout_unsorted_seen',
            'inplace_zeroed_tables']


def plan(tier):
    n = 2500 if tier == 'quick' else 60000
    return {'cases': n, 'shards': 16, 'min_nontrivial': 300,
            'timeout': 900 if tier == 'quick' else 3600}


def collapsed_case(ctx, index, r):
    """`biom convert --to-hdf5 --collapsed-samples / --collapsed-observations`:
    a BIOM 1.0 table whose per-id metadata keys are the ids that were
    collapsed into that id becomes a 2.1 file with a `collapsed_ids` list per
    id — one entry per id, in id order, also for ids that collapsed
    nothing."""
    from click.testing import CliRunner
    from biom.cli import cli
    spec = gen.gen_spec(r, max_n=5, max_m=5, md_kinds=['none'],
                        id_classes=['ascii', 'natsort', 'numeric', 'latin1'],
                        value_classes=['count', 'frac'])
    which = r.choice(['sample', 'observation', 'both'])
    exp = {'observation': None, 'sample': None}
    for axis in ('observation', 'sample'):
        if which not in (axis, 'both'):
            continue
        md = []
        for i in spec.ids(axis):
            k = r.choice([0, 0, 1, 2, 3])
            md.append({'%s.part%d' % (i, q): r.choice(['x', 1, None])
                       for q in range(k)})
        if not any(md):
            md[-1] = {'only': 'x'}
        if axis == 'observation':
            spec.obs_md = md
        else:
            spec.samp_md = md
        exp[axis] = [{'collapsed_ids': sorted(e)} for e in md]
    t = gen.build(ctx.biom, spec, 'dense')
    desc = {'table': spec.describe(), 'collapsed': which}
    jp = ctx.path('col%d.json' % index)
    hp = ctx.path('col%d.biom' % index)
    try:
        with open(jp, 'w', encoding='utf-8') as f:
            f.write(t.to_json('vm'))
        args = ['convert', '-i', jp, '-o', hp, '--to-hdf5']
        if which in ('sample', 'both'):
            args.append('--collapsed-samples')
        if which in ('observation', 'both'):
            args.append('--collapsed-observations')
        rr = CliRunner().invoke(cli, args)
        if rr.exit_code != 0:
            # refusing such a table is not a malformed file
            ctx.count('collapsed_conversions_refused')
            ctx.case(desc, True)
            return
        dec = h5spec.decode(hp)
        if dec['problems']:
            raise Violation('C04/spec-violation', '%s; case=%r' %
                            ('; '.join(dec['problems'][:4]), desc))
        if dec['obs_ids'] != spec.obs_ids or dec['samp_ids'] != \
                spec.samp_ids or not snap.bits_equal(dec['D_obs_view'],
                                                     spec.D):
            raise Violation('C04/ids', 'collapsed conversion: file has %r / '
                            '%r; case=%r' % (dec['obs_ids'], dec['samp_ids'],
                                             desc))
        for axis, key in (('observation', 'obs_md'), ('sample', 'samp_md')):
            if exp[axis] is None:
                continue
            got = [{k: v for k, v in e.items()} for e in dec[key]]
            want = [{'collapsed_ids': e['collapsed_ids']} if
                    e['collapsed_ids'] else {'collapsed_ids': []}
                    for e in exp[axis]]
            norm = [{'collapsed_ids': list(g.get('collapsed_ids') or [])}
                    for g in got]
            if len(got) != len(want) or norm != want:
                raise Violation('C04/collapsed-ids', '%s: file gives %r, the '
                                'ids that were collapsed are %r; case=%r' %
                                (axis, got, want, desc))
        ctx.count('collapsed_conversions_checked')
    finally:
        for p_ in (jp, hp):
            if os.path.exists(p_):
                os.remove(p_)
    ctx.case(desc, True)


def run_case(ctx, index):
    if index % 23 == 9:
        return collapsed_case(ctx, index, ctx.rng(index))
    if index % 29 == 11:
        return _hdf5.ragged_case(ctx, index, ctx.rng(index), 'C04')
    g = _hdf5.gen_case(ctx, index, empty_axis_ok=True)
    if g is None:
        return
    t, src, desc, cfg, path, r = g
    special = None
    if index % 7 == 3 and src.D.any():
        # zero some stored entries in place through the public matrix_data
        # handle (upstream issue #727 scenario) just before writing
        m = t.matrix_data
        k = r.randrange(len(m.data))
        m.data[k] = 0.0
        src = snap.snap(t)
        special = 'inplace-zeroed'
        desc['special'] = special
        ctx.count('inplace_zeroed_tables')
    try:
        if index % 11 == 5 and src.obs_ids and src.samp_ids:
            # via the command line: JSON in, HDF5 out
            jp = ctx.path('in%d.json' % index)
            with open(jp, 'w') as f:
                f.write(t.to_json('vm'))
            from click.testing import CliRunner
            from biom.cli import cli
            args = ['convert', '-i', jp, '-o', path, '--to-hdf5']
            if src.type in gen.TABLE_TYPES:
                args += ['--table-type', src.type]
            rr = CliRunner().invoke(cli, args)
            os.remove(jp)
            if rr.exit_code != 0:
                raise Violation('C04/cli-convert-failed', 'exit %s %r %r; '
                                'case=%r' % (rr.exit_code, rr.output[-300:],
                                             rr.exception, desc))
            desc['via'] = 'biom convert --to-hdf5'
            ctx.count('cli_convert_files')
        else:
            _hdf5.write(ctx, t, cfg, path)
        dec = _hdf5.check_conformance(
            ctx, path, src, desc,
            custom=None if desc.get('via') else cfg.get('custom_category'),
            table=None if desc.get('via') else t)
        if not src.D.any():
            ctx.count('all_zero_tables')
    finally:
        if os.path.exists(path):
            os.remove(path)
    allids = src.obs_ids + src.samp_ids
    nt = (not src.D.any()) or not src.obs_ids or not src.samp_ids or (
        len(src.obs_ids) >= 2 or len(src.samp_ids) >= 2 or
        any(src.obs_md) or any(src.samp_md) or
        any(ord(c) > 127 or c == '/' for i in allids for c in i))
    ctx.case(desc, bool(nt))
