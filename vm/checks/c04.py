"""C04 -- written HDF5 files conform to BIOM 2.1; both matrix views agree.

Monitors: independent decoder of the file (vm/h5spec.py, raw h5py, written
from doc/documentation/format_versions/biom-2.1.rst).
"""
import os

import h5py
import numpy as np

from vm import gen, snap
from vm.ctx import Violation
from vm.checks import _hdf5

ID = 'C04'
TITLE = 'written HDF5 conforms to BIOM 2.1'
LEVEL = 'exploration'
RULE = ('the C01 workload (same generator) plus 0xM / Nx0 tables (every 9th '
        'case), all-zero tables, tables whose stored entries were zeroed in '
        'place through matrix_data, and files written by `biom convert '
        '--to-hdf5`; every file is decoded by the independent spec decoder. '
        'Non-trivial: >=1 non-zero and (>=2 ids on an axis or metadata or a '
        'non-ASCII / "/" id), and every empty-axis / all-zero case; distinct '
        '= distinct (table, layout, history, write configuration)')
ASSUMPTIONS = [
    'the element-type check of an ids dataset is skipped when it is empty '
    '(no element exists)',
    'unsorted indices inside a row are allowed (the spec does not forbid '
    'them); duplicates are detected by decoding twice (assign / accumulate)',
]
ANCHORS = ['Table.to_hdf5', 'general_formatter', 'vlen_list_of_str_formatter', '_convert']
REQUIRED = ['list_category_under_other_name', 'group_metadata_decoded', 'reserved_category_user_formatter', 'ragged_metadata_cases', 'format_fs_writes', 'spec_decodes', 'empty_axis_tables', 'all_zero_tables',
            'cli_convert_files', 'layout_csc_seen', 'layout_unsorted_seen',
            'inplace_zeroed_tables']


def plan(tier):
    n = 2500 if tier == 'quick' else 60000
    return {'cases': n, 'shards': 16, 'min_nontrivial': 300,
            'timeout': 900 if tier == 'quick' else 3600}


def run_case(ctx, index):
    if index % 29 == 11:
        return _hdf5.ragged_case(ctx, index, ctx.rng(index), 'C04')
    g = _hdf5.gen_case(ctx, index, empty_axis_ok=True)
    if g is None:
        return
    t, src, desc, cfg, path, r = g
    special = None
    if index % 7 == 3 and src.D.any():
        # zero some stored entries in place through the public matrix_data
        # handle (upstream issue #727 scenario) just before writing
        m = t.matrix_data
        k = r.randrange(len(m.data))
        m.data[k] = 0.0
        src = snap.snap(t)
        special = 'inplace-zeroed'
        desc['special'] = special
        ctx.count('inplace_zeroed_tables')
    try:
        if index % 11 == 5 and src.obs_ids and src.samp_ids:
            # via the command line: JSON in, HDF5 out
            jp = ctx.path('in%d.json' % index)
            with open(jp, 'w') as f:
                f.write(t.to_json('vm'))
            from click.testing import CliRunner
            from biom.cli import cli
            args = ['convert', '-i', jp, '-o', path, '--to-hdf5']
            if src.type in gen.TABLE_TYPES:
                args += ['--table-type', src.type]
            rr = CliRunner().invoke(cli, args)
            os.remove(jp)
            if rr.exit_code != 0:
                raise Violation('C04/cli-convert-failed', 'exit %s %r %r; '
                                'case=%r' % (rr.exit_code, rr.output[-300:],
                                             rr.exception, desc))
            desc['via'] = 'biom convert --to-hdf5'
            ctx.count('cli_convert_files')
        else:
            _hdf5.write(ctx, t, cfg, path)
        dec = _hdf5.check_conformance(
            ctx, path, src, desc,
            custom=None if desc.get('via') else cfg.get('custom_category'),
            table=None if desc.get('via') else t)
        if not src.D.any():
            ctx.count('all_zero_tables')
    finally:
        if os.path.exists(path):
            os.remove(path)
    allids = src.obs_ids + src.samp_ids
    nt = (not src.D.any()) or not src.obs_ids or not src.samp_ids or (
        len(src.obs_ids) >= 2 or len(src.samp_ids) >= 2 or
        any(src.obs_md) or any(src.samp_md) or
        any(ord(c) > 127 or c == '/' for i in allids for c in i))
    ctx.case(desc, bool(nt))
