"""C17 -- all accepted construction inputs agree; malformed input rejected.

Monitors: every encoding of the same matrix is constructed and compared
(== both ways, and snapshot against the matrix); adjacency / uc importers
against sums / counts computed from the records; malformed combinations must
raise the table error (fault injection on the constructor arguments).
"""
import copy
import io
import os

import numpy as np
import scipy.sparse as sp

from vm import gen, snap
from vm.ctx import Violation

ID = 'C17'
TITLE = 'construction inputs agree; malformed rejected'
LEVEL = 'exploration'
RULE = ('per case one generated matrix encoded in up to 20 accepted forms '
        '(ndarray float/int/bool, nested lists, triples in random order with '
        'explicit zeros, coordinate dict in random insertion order, row '
        'arrays, row dicts, sparse rows, csr/csc/coo/lil/dok/bsr incl. '
        'unsorted / stored zeros, object-dtype id arrays); adjacency and uc '
        'record multisets over alphabets of 1..4 ids as string / list / '
        'handle and through `biom from-uc`; malformed combinations '
        '(duplicate id at any position, too few / many ids, metadata too '
        'short / long / non-mapping) for every shape-carrying form. '
        'Non-trivial: >=3 encodings agree on a matrix with a zero and a '
        'non-zero, or the input is malformed; distinct = distinct (matrix, '
        'forms | records | malformation)')
ASSUMPTIONS = [
    'id-count mismatches are generated only for input forms that carry '
    'their own shape; for coordinate forms a mismatch is an out-of-range '
    'coordinate which SciPy rejects with its own error',
    'uc query labels contain exactly one underscore (docstring says first, '
    'code uses the last; with one they agree)',
    'row dicts always name the last column (shape is inferred from keys)',
]
ANCHORS = ['Table._to_sparse', 'coo_arrays_to_sparse', 'list_list_to_sparse', 'nparray_to_sparse', 'list_nparray_to_sparse', 'list_sparse_to_sparse', 'list_dict_to_sparse', 'dict_to_sparse', 'Table.from_adjacency', 'parse_uc', '_from_uc', 'errcheck']
REQUIRED = ['adjacency_first_record_named_like_the_header', 'malformed_flat_vector', 'form_rows_of_mixed_layout', 'uc_hits_on_seed_reads', 'form_rows_of_mixed_dtype', 'adjacency_ids_starting_with_hash', 'families', 'forms_compared', 'form_dict_unordered',
            'form_triples_with_zeros', 'form_bool', 'form_int',
            'adjacency_cases', 'uc_cases', 'uc_cli_cases',
            'malformed_duplicate_id', 'malformed_id_count',
            'malformed_metadata', 'wellformed_controls']


def plan(tier):
    n = 4000 if tier == 'quick' else 120000
    return {'cases': n, 'shards': 16, 'min_nontrivial': 500,
            'timeout': 900 if tier == 'quick' else 3600}


def forms(r, D):
    n, m = D.shape
    out = {}
    out['ndarray-float'] = lambda: (D.copy(), {})
    if np.all(D == np.floor(D)) and np.all(np.abs(D) < 2 ** 53):
        out['ndarray-int'] = lambda: (D.astype(np.int64), {})
    if np.all((D == 0) | (D == 1)):
        out['ndarray-bool'] = lambda: (D.astype(bool), {})
    out['nested-lists'] = lambda: ([[float(v) for v in row] for row in D],
                                   {'input_is_dense': True})

    def triples():
        t = [[int(i), int(j), float(D[i, j])] for i in range(n)
             for j in range(m) if D[i, j] != 0 or r.random() < .3]
        if not t:
            t = [[0, 0, 0.0]]
        r.shuffle(t)
        return t, {}
    out['triples'] = triples

    def cdict():
        keys = [(i, j) for i in range(n) for j in range(m)
                if D[i, j] != 0 or r.random() < .2]
        if not keys:
            keys = [(0, 0)]
        r.shuffle(keys)
        return {k: float(D[k]) for k in keys}, {}
    out['coord-dict'] = cdict
    out['row-arrays'] = lambda: ([row.copy() for row in D], {})

    def rowdicts():
        rows = []
        for i in range(n):
            d = {}
            cols = list(range(m))
            r.shuffle(cols)
            for j in cols:
                if D[i, j] != 0 or j == m - 1 or r.random() < .2:
                    d[(0, j)] = float(D[i, j])
            rows.append(d)
        return rows, {}
    out['row-dicts'] = rowdicts
    out['sparse-rows'] = lambda: ([sp.csr_matrix(D[i:i + 1, :])
                                   for i in range(n)], {})
    if n > 1:
        # the rows of the list need not share a sparse layout (rows cut out
        # of matrices of different kinds)
        kinds = [r.choice(['csr', 'csc', 'coo', 'lil', 'dok', 'bsr'])
                 for _ in range(n)]
        if len(set(kinds)) == 1:
            kinds[-1] = 'csc' if kinds[0] != 'csc' else 'coo'
        out['sparse-rows-mixed-layout'] = lambda: (
            [getattr(sp, k + '_matrix')(D[i:i + 1, :])
             for i, k in enumerate(kinds)], {})
    if n == 1 and D.shape[1] > 1:
        # a single observation given as a plain vector
        out['ndarray-1d'] = lambda: (D[0].copy(), {})

    def narrow(row):
        # the narrowest element type that holds this row exactly
        if np.all((row == 0) | (row == 1)):
            return row.astype(bool)
        if np.all(row == np.floor(row)) and np.all(np.abs(row) < 2 ** 31):
            return row.astype(np.int32)
        if np.all(row.astype(np.float32).astype(np.float64) == row):
            return row.astype(np.float32)
        return row
    with np.errstate(all='ignore'):
        mixed = [narrow(D[i:i + 1, :]) for i in range(n)]
    if len({m_.dtype for m_ in mixed}) > 1:
        # rows of one matrix need not share an element type
        out['sparse-rows-mixed-dtype'] = lambda: (
            [sp.csr_matrix(m_) for m_ in mixed], {})
        out['row-arrays-mixed-dtype'] = lambda: (
            [m_.reshape(-1) for m_ in mixed], {})
    def dup(fmt):
        # a compressed matrix storing some coordinates twice (cell = sum)
        rows, cols, vals = [], [], []
        for i, j in zip(*np.nonzero(D)):
            v = D[i, j]
            if np.isfinite(v) and abs(v) < 2 ** 50 and (v - 1.0) + 1.0 == v:
                rows += [i, i]
                cols += [j, j]
                vals += [1.0, v - 1.0]
            else:
                rows.append(i), cols.append(j), vals.append(v)
        # ... and a cell that is zero stored as +3 and -3
        zr, zc = np.nonzero(D == 0)
        for i, j in list(zip(zr, zc))[:2]:
            rows += [i, i]
            cols += [j, j]
            vals += [3.0, -3.0]
        coo = sp.coo_matrix((vals, (rows, cols)), shape=D.shape)
        # build the compressed arrays by hand: scipy's own conversion would
        # merge the duplicates
        key = np.array(rows if fmt == 'csr' else cols, dtype=np.int64)
        oth = np.array(cols if fmt == 'csr' else rows, dtype=np.int32)
        order = np.argsort(key, kind='stable')
        k = D.shape[0] if fmt == 'csr' else D.shape[1]
        indptr = np.concatenate([[0], np.cumsum(np.bincount(
            key, minlength=k))]).astype(np.int32)
        cls = sp.csr_matrix if fmt == 'csr' else sp.csc_matrix
        del coo
        return cls((np.array(vals, dtype=float)[order], oth[order], indptr),
                   shape=D.shape)
    if D.any():
        out['scipy-csr-duplicate-entries'] = lambda: (dup('csr'), {})
        out['scipy-csc-duplicate-entries'] = lambda: (dup('csc'), {})
    for fmt in ('csr', 'csc', 'coo', 'lil', 'dok', 'bsr'):
        out['scipy-' + fmt] = lambda fmt=fmt: (sp.csr_matrix(D).asformat(
            fmt), {})

    def unsorted():
        mm = sp.csr_matrix(D)
        for i in range(n):
            s, e = mm.indptr[i], mm.indptr[i + 1]
            mm.indices[s:e] = mm.indices[s:e][::-1].copy()
            mm.data[s:e] = mm.data[s:e][::-1].copy()
        mm.has_sorted_indices = False
        return mm, {}
    out['scipy-csr-unsorted'] = unsorted

    def stored(fmt):
        rows, cols = np.nonzero(D)
        rows, cols = list(rows), list(cols)
        vals = [D[i, j] for i, j in zip(rows, cols)]
        for i, j in zip(*np.nonzero(D == 0)):
            if r.random() < .5:
                rows.append(i)
                cols.append(j)
                vals.append(0.0)
        c = sp.coo_matrix((vals, (rows, cols)), shape=D.shape)
        return (c.tocsr() if fmt == 'csr' else c.tocsc()), {}
    out['scipy-csr-stored-zeros'] = lambda: stored('csr')
    out['scipy-csc-stored-zeros'] = lambda: stored('csc')
    return out


def run_family(ctx, r, index):
    Table = ctx.biom.Table
    vcl = r.choice(['count', 'count', 'binary', 'dyadic', 'neg', 'frac',
                    'tiny', 'huge', 'bigcount'])
    n, m = r.randint(1, 5), r.randint(1, 5)
    if vcl == 'binary':
        D = (np.array([[r.random() < .5 for _ in range(m)]
                       for _ in range(n)])).astype(float)
    else:
        D = gen.gen_matrix(r, n, m, vcl, r.choice([.3, .6, 1.0]),
                           r.choice([None, 'zero-row', 'zero-col']))
    idc = r.choice(gen.ID_CLASSES)
    obs = gen.gen_ids(r, n, idc, 'O')
    samp = gen.gen_ids(r, m, idc, 'S')
    omd = gen.gen_metadata(r, obs, r.choice(['none', 'text', 'int']))
    smd = gen.gen_metadata(r, samp, r.choice(['none', 'taxonomy', 'float']))
    ttype = r.choice(gen.TABLE_TYPES + [None])
    spec = gen.Spec(obs, samp, D, omd, smd, ttype)
    fs = forms(r, D)
    names = sorted(fs)
    r.shuffle(names)
    desc = {'table': spec.describe(), 'forms': names}
    ref = snap.snap_spec(spec)
    tabs = []
    for nm in names:
        data, kw = fs[nm]()
        o_ids, s_ids = list(obs), list(samp)
        if r.random() < .2:
            o_ids = np.array(obs, dtype=object)
            s_ids = np.array(samp, dtype=object)
        elif r.random() < .2:
            o_ids, s_ids = tuple(obs), np.array(samp)
        elif r.random() < .15:
            import pandas as pd
            o_ids, s_ids = pd.Index(obs), pd.Series(samp, dtype=object)
            ctx.count('ids_as_pandas_containers')
        try:
            t = Table(data, o_ids, s_ids, copy.deepcopy(omd),
                      copy.deepcopy(smd), type=ttype, **kw)
        except Exception as e:
            raise Violation('C17/accepted-form-rejected/' + nm, '%s: %s; '
                            'case=%r' % (type(e).__name__, e, desc))
        d = snap.diff(snap.snap(t), ref)
        if d:
            raise Violation('C17/form-wrong-content/' + nm, '%s; case=%r' %
                            ('; '.join(d), desc))
        # ... and nothing else: the cells the table lists as non-zero are
        # the non-zero cells of the matrix (a cancelled pair of entries or a
        # zero in the input is not a value)
        listed = sorted((str(a), str(b)) for a, b in t.nonzero())
        want_nz = sorted((obs[i], samp[j]) for i, j in zip(*np.nonzero(D)))
        if listed != want_nz:
            raise Violation('C17/form-lists-other-cells/' + nm, 'nonzero() '
                            'lists %r, the non-zero cells are %r; case=%r' %
                            (listed, want_nz, desc))
        tabs.append((nm, t))
        ctx.cls('form', nm)
        ctx.count('forms_compared')
        if nm == 'coord-dict':
            ctx.count('form_dict_unordered')
        if nm == 'triples':
            ctx.count('form_triples_with_zeros')
        if nm == 'ndarray-bool':
            ctx.count('form_bool')
        if nm == 'ndarray-int':
            ctx.count('form_int')
        if nm.endswith('mixed-dtype'):
            ctx.count('form_rows_of_mixed_dtype')
        if nm.endswith('mixed-layout'):
            ctx.count('form_rows_of_mixed_layout')
    for a, ta in tabs:
        for b, tb in tabs:
            if not (ta == tb) or (ta != tb):
                raise Violation('C17/forms-unequal', '%s != %s; case=%r' %
                                (a, b, desc))
    ctx.count('families')
    ctx.case(desc, len(tabs) >= 3 and bool(np.any(D == 0) and np.any(D != 0)))


def run_malformed(ctx, r, index):
    Table = ctx.biom.Table
    TE = ctx.TableException
    n, m = r.randint(1, 4), r.randint(1, 4)
    D = gen.gen_matrix(r, n, m, 'count', 1.0)
    obs = gen.gen_ids(r, n, 'ascii', 'O')
    samp = gen.gen_ids(r, m, 'ascii', 'S')
    fs = forms(r, D)
    shape_carrying = ['ndarray-float', 'nested-lists', 'row-arrays',
                      'sparse-rows', 'scipy-csr', 'scipy-csc', 'scipy-coo',
                      'scipy-lil', 'row-dicts']
    nm = r.choice(shape_carrying)
    data, kw = fs[nm]()
    kind = r.choice(['dup-id', 'dup-id', 'too-few-ids', 'too-many-ids',
                     'md-short', 'md-long', 'md-nonmapping-truthy',
                     'md-nonmapping-falsy', 'md-all-none-wrong-length',
                     'md-all-empty-wrong-length', 'control'])
    axis = r.choice(['observation', 'sample'])
    ids = {'observation': list(obs), 'sample': list(samp)}
    md = {'observation': None, 'sample': None}
    k = len(ids[axis])
    if kind == 'dup-id':
        if k < 2:
            kind = 'too-many-ids'
        else:
            a, b = r.sample(range(k), 2)
            ids[axis][a] = ids[axis][b]
    if kind == 'too-few-ids':
        if k < 2:
            kind = 'too-many-ids'
        else:
            ids[axis] = ids[axis][:-1]
    if kind == 'too-many-ids':
        ids[axis] = ids[axis] + ['extra_%d' % i for i in range(r.randint(1,
                                                                         2))]
    good = [{'a': i} for i in range(k)]
    if kind == 'md-short':
        md[axis] = good[:-1] if k > 1 else []
    elif kind == 'md-long':
        md[axis] = good + [{'a': 99}]
    elif kind == 'md-nonmapping-truthy':
        md[axis] = list(good)
        md[axis][r.randrange(k)] = r.choice(['text', 5, [1, 2], ('a', 1)])
    elif kind == 'md-nonmapping-falsy':
        md[axis] = [r.choice([0, '', [], 0.0]) for _ in range(k)]
        if r.random() < .5 and k > 1:
            md[axis][0] = {'a': 1}
    elif kind == 'md-all-none-wrong-length':
        md[axis] = [None] * (k + r.choice([-1, 1, 2]))
        if not md[axis]:
            md[axis] = [None, None]
    elif kind == 'md-all-empty-wrong-length':
        md[axis] = [{} for _ in range(k + r.choice([1, 2]))]
    elif kind == 'control':
        md[axis] = good
    if kind == 'control' and n >= 2 and m >= 2 and r.random() < .5:
        # a matrix flattened into one vector is not a matrix of that many
        # ids by that many: the vector is one observation (or nothing)
        kind = 'flat-vector'
        nm = 'ndarray-1d'
        data, kw = D.reshape(-1).copy(), {}
        if r.random() < .5:
            ids = {'observation': list(samp), 'sample': list(obs)}
        md = {'observation': None, 'sample': None}
        ctx.count('malformed_flat_vector')
    desc = {'form': nm, 'kind': kind, 'axis': axis, 'D': D.tolist(),
            'ids': ids, 'md': repr(md)}
    try:
        t = Table(data, ids['observation'], ids['sample'],
                  md['observation'], md['sample'], **kw)
    except TE:
        if kind == 'control':
            raise Violation('C17/wellformed-rejected', 'case=%r' % (desc,))
        ctx.count('malformed_duplicate_id' if kind == 'dup-id' else
                  'malformed_id_count' if 'ids' in kind else
                  'malformed_metadata')
    except Exception as e:
        if kind == 'control':
            raise
        raise Violation('C17/malformed-wrong-error/' + kind, 'raised %s (%s)'
                        ' instead of the table error; case=%r' %
                        (type(e).__name__, e, desc))
    else:
        if kind != 'control':
            raise Violation('C17/malformed-accepted/' + kind, 'a table was '
                            'produced: shape %r ids %r/%r metadata %r/%r; '
                            'case=%r' % (t.shape, list(t.ids(
                                axis='observation')), list(t.ids()),
                                t.metadata(axis='observation'),
                                t.metadata(), desc))
        ctx.count('wellformed_controls')
    ctx.cls('malformation', kind)
    ctx.case(desc, kind != 'control')


def run_adjacency(ctx, r, index):
    Table = ctx.biom.Table
    O = gen.gen_ids(r, r.randint(1, 4), r.choice(['ascii', 'natsort',
                                                  'latin1', 'space']), 'O')
    S = gen.gen_ids(r, r.randint(1, 4), r.choice(['ascii', 'numeric',
                                                  'cjk']), 'S')
    if r.random() < .3:
        # ids with blanks at their edges are still ids (tab separated fields)
        O = [(' ' + o) if k % 2 == 0 else o for k, o in enumerate(O)] + \
            [O[0]]
        S = [(s + ' ') if k % 2 == 1 else ('\u3000' + s)
             for k, s in enumerate(S)]
        O = list(dict.fromkeys(O))
    recs = []
    for _ in range(r.randint(1, 12)):
        v = r.choice([1, 2, 3.5, -1, 0.25, 1e-7, 5, 0, 0.0])
        recs.append((r.choice(O), r.choice(S), v))
    if r.random() < .4:
        # an id that only zero-valued records name (incl. the last in sort
        # order) still belongs to the table
        recs.append((max(O) if r.random() < .5 else r.choice(O),
                     max(S) if r.random() < .5 else r.choice(S), 0))
        recs = [(o, s, (0 if o == recs[-1][0] else v)) for o, s, v in recs]
    if not any(v for _, _, v in recs):
        recs.append((O[0], S[0], 2))
    if r.random() < .3:
        o, s, v = recs[0]
        recs.append((o, s, -v))      # cancels
    header = r.random() < .5
    if r.random() < .2:
        # observation ids may start with '#': only a first line starting
        # with '#' is the (optional) header, so a header is written here
        ren = {o: '#' + o.strip() for o in r.sample(O, r.randint(1, len(O)))}
        recs = [(ren.get(o, o), s, v) for o, s, v in recs]
        header = True
        ctx.count('adjacency_ids_starting_with_hash')
    if not header and r.random() < .12:
        # no header, and the first record names an observation (and perhaps
        # a sample) like the header's column titles: with a number in the
        # third column it is a record
        o0, s0 = recs[0][0], recs[0][1]
        ren_s = 'SampleID' if r.random() < .5 else s0
        if '#OTU ID' not in {o for o, _, _ in recs} and \
                (ren_s == s0 or ren_s not in {x for _, x, _ in recs}):
            recs = [('#OTU ID' if o == o0 else o,
                     ren_s if x == s0 else x, v) for o, x, v in recs]
            ctx.count('adjacency_first_record_named_like_the_header')
    lines = ['%s\t%s\t%r' % (o, s, float(v)) for o, s, v in recs]
    if header:
        lines = ['#OTU ID\tSampleID\tvalue'] + lines
    how = r.choice(['list', 'list-nl', 'string', 'handle', 'tuple',
                    'list-crlf'])
    arg = {'list': lambda: list(lines),
           'list-nl': lambda: [ln + '\n' for ln in lines],
           'list-crlf': lambda: [ln + '\r\n' for ln in lines],
           'string': lambda: '\n'.join(lines),
           'handle': lambda: io.StringIO('\n'.join(lines) + '\n'),
           'tuple': lambda: tuple(lines)}[how]()
    desc = {'records': recs, 'header': header, 'as': how}
    t = Table.from_adjacency(arg)
    s = snap.snap(t)
    eo = sorted({o for o, _, _ in recs})
    es = sorted({x for _, x, _ in recs})
    if sorted(s.obs_ids) != eo or sorted(s.samp_ids) != es:
        raise Violation('C17/adjacency-ids', 'got %r / %r, records name %r /'
                        ' %r; case=%r' % (s.obs_ids, s.samp_ids, eo, es,
                                          desc))
    for a, o in enumerate(s.obs_ids):
        for b, x in enumerate(s.samp_ids):
            e = 0.0
            for ro, rs, v in recs:
                if ro == o and rs == x:
                    e += float(v)
            if not np.isclose(s.D[a, b], e, rtol=1e-12, atol=1e-18):
                raise Violation('C17/adjacency-cell', '(%r,%r) is %r, the '
                                'records sum to %r; case=%r' %
                                (o, x, float(s.D[a, b]), e, desc))
    ctx.count('adjacency_cases')
    ctx.case(desc, len(recs) >= 2)


def run_uc(ctx, r, index):
    seeds = ['seed%d' % i for i in range(r.randint(1, 4))]
    samples = gen.gen_ids(r, r.randint(1, 4), r.choice(['ascii', 'latin1',
                                                        'natsort']), 'f')
    samples = [s.replace('_', '-') for s in samples]
    lines = []
    counts = {}
    obs_order, samp_order = [], []
    qn = 0

    def field_line(tp, query, target):
        f = [tp, '0', '100', '99.0', '+', '0', '0', '100M', query, target]
        return '\t'.join(f)
    lines.append('# uc file written by vm')
    # reads that found no earlier cluster and became seeds themselves; hits
    # may name them as target wherever their own S record stands in the file
    # (files get sorted by record type, merged, concatenated)
    sreads = []
    for k in range(r.randint(0, 3)):
        sreads.append('%s_%d' % (r.choice(samples), 1000 + k))
    recs = []                       # (type, query label, target label)
    for sr in sreads:
        for _ in range(r.choice([1, 1, 1, 2])):     # seldom listed twice
            recs.append(('S', sr + r.choice(['', ' d', ' len_250']), '*'))
    for _ in range(r.randint(1, 14)):
        tp = r.choice(['S', 'H', 'H', 'H', 'C', 'N', 'L', '', '#x'])
        samp = r.choice(samples)
        qn += 1
        q = '%s_%d' % (samp, qn)
        descr = r.choice(['', '', ' extra description',
                          ' FLP3FBN01 orig_bc=ACGT new_bc=ACG bc_diffs=0',
                          ' read_1 len_250'])
        if tp in ('', '#x'):
            recs.append((tp, None, None))
        elif tp == 'S':
            recs.append(('S', q + (descr or ' d'), '*'))
        elif tp == 'H':
            tgt = r.choice(seeds + sreads)
            recs.append(('H', q + descr, tgt + ' descr_x'))
        elif tp == 'L':
            recs.append(('L', q, r.choice(seeds)))
        else:
            recs.append((tp, q, r.choice(seeds)))
    r.shuffle(recs)
    if any(t_ == 'H' and g.split(' ')[0] in sreads for t_, q_, g in recs
           if t_ == 'H'):
        ctx.count('uc_hits_on_seed_reads')
    for tp, qlab, tlab in recs:
        if tp == '':
            lines.append('')
            continue
        if tp == '#x':
            lines.append('#comment\tline')
            continue
        lines.append(field_line(tp, qlab, tlab))
        if tp not in ('S', 'H', 'L'):
            continue
        qid = qlab.split(' ')[0]
        samp = qid.rsplit('_', 1)[0]
        obs = qid if tp == 'S' else tlab.split(' ')[0]
        if obs not in obs_order:
            obs_order.append(obs)
        if tp in ('S', 'H'):
            if samp not in samp_order:
                samp_order.append(samp)
            counts[(obs, samp)] = counts.get((obs, samp), 0) + 1
    if not counts:
        ctx.skip('uc: no H/S record generated')
        return
    text = '\n'.join(lines) + '\n'
    from biom.parse import parse_uc
    how = r.choice(['handle', 'list', 'cli', 'cli-map', 'list-crlf'])
    desc = {'uc': lines, 'as': how}
    files = []
    try:
        rename = {}
        if how == 'handle':
            t = parse_uc(io.StringIO(text))
        elif how == 'list':
            t = parse_uc([ln + '\n' for ln in lines])
        elif how == 'list-crlf':
            t = parse_uc([ln + '\r\n' for ln in lines])
        else:
            up = ctx.path('c17_%d.uc' % index)
            op = ctx.path('c17_%d.biom' % index)
            files += [up, op]
            with open(up, 'w', encoding='utf-8') as f:
                f.write(text)
            args = ['from-uc', '-i', up, '-o', op]
            if how == 'cli-map':
                fp = ctx.path('c17_%d.fna' % index)
                files.append(fp)
                with open(fp, 'w', encoding='utf-8') as f:
                    for k, o in enumerate(obs_order):
                        rename[o] = 'OTU%d' % k
                        f.write('>OTU%d %s more\nACGT\n' % (k, o))
                    f.write('>unused other_seq\nAC\n')
                args += ['--rep-set-fp', fp]
            from click.testing import CliRunner
            from biom.cli import cli
            rr = CliRunner().invoke(cli, args)
            if rr.exit_code != 0:
                raise Violation('C17/from-uc-failed', 'exit %s %r %r; '
                                'case=%r' % (rr.exit_code, rr.output[-300:],
                                             rr.exception, desc))
            t = ctx.biom.load_table(op)
            ctx.count('uc_cli_cases')
        s = snap.snap(t)
        eo = [rename.get(o, o) for o in obs_order]
        if s.obs_ids != eo or s.samp_ids != samp_order:
            raise Violation('C17/uc-ids', 'got %r / %r, expected %r / %r; '
                            'case=%r' % (s.obs_ids, s.samp_ids, eo,
                                         samp_order, desc))
        for a, o in enumerate(obs_order):
            for b, x in enumerate(samp_order):
                e = float(counts.get((o, x), 0))
                if s.D[a, b] != e:
                    raise Violation('C17/uc-cell', '(%r,%r) is %r, %r H/S '
                                    'records name it; case=%r' %
                                    (o, x, float(s.D[a, b]), e, desc))
    finally:
        for p in files:
            if os.path.exists(p):
                os.remove(p)
    ctx.count('uc_cases')
    ctx.case(desc, len(counts) >= 2)


def run_case(ctx, index):
    r = ctx.rng(index)
    k = index % 6
    if k in (0, 1):
        run_family(ctx, r, index)
    elif k in (2, 3):
        run_malformed(ctx, r, index)
    elif k == 4:
        run_adjacency(ctx, r, index)
    else:
        run_uc(ctx, r, index)


def setup(ctx):
    from biom.exception import TableException
    ctx.TableException = TableException
