"""Stress workloads for the compiled kernels (run on the sanitizer build and,
in the thorough tier, on the normal build): large sparse tables, empty
vectors at the start / middle / end, n equal to a vector total, counts near
2^31 and 2^40, filters removing everything / nothing."""
import numpy as np
import scipy.sparse as sp

from vm.ctx import Violation


def big_table(ctx, r, n=2000, m=300, density=0.02, maxv=50, big=False):
    rng = np.random.default_rng(r.randrange(2 ** 32))
    M = sp.random(n, m, density=density, format='csr', random_state=rng,
                  data_rvs=lambda k: rng.integers(1, maxv, size=k).astype(
                      float))
    M = M.tolil()
    M[0, :] = 0
    M[n // 2, :] = 0
    M[n - 1, :] = 0
    M[:, 0] = 0
    M[:, m - 1] = 0
    if big:
        M[1, 1] = float(2 ** 31 - 1)
        M[2, 1] = float(2 ** 31 + 7)
        M[3, 2] = float(2 ** 40)
    M = M.tocsr()
    M.eliminate_zeros()
    t = ctx.biom.Table(M, ['o%d' % i for i in range(n)],
                       ['s%d' % j for j in range(m)])
    return t, np.asarray(M.todense())


def stress_filter(ctx, r):
    t, D = big_table(ctx, r)
    for axis, V in (('observation', D), ('sample', D.T)):
        for layout in ('as-is', 'other'):
            tt = t.copy()
            if layout == 'other':
                tt.data(tt.ids(axis='sample' if axis == 'observation' else
                               'observation')[0],
                        'sample' if axis == 'observation' else 'observation')
            thr = float(np.median(V.sum(axis=1)))
            seen = []
            res = tt.filter(lambda v, i, m: seen.append(float(v.sum())) or
                            v.sum() > thr, axis=axis, inplace=False)
            if not np.allclose(seen, V.sum(axis=1)):
                raise Violation('%s/stress-filter-vectors' % ctx.id,
                                'predicate saw wrong vector sums on a %dx%d '
                                'table (%s, %s)' % (D.shape + (axis, layout)))
            keep = V.sum(axis=1) > thr
            exp = D[keep, :] if axis == 'observation' else D[:, keep]
            if not np.array_equal(res.matrix_data.toarray(), exp):
                raise Violation('%s/stress-filter-result' % ctx.id,
                                '%s %s' % (axis, layout))
            for pred, n_exp in ((lambda v, i, m: False, 0),
                                (lambda v, i, m: True, V.shape[0])):
                rr = tt.filter(pred, axis=axis, inplace=False)
                if rr.length(axis) != n_exp:
                    raise Violation('%s/stress-filter-all-or-nothing' %
                                    ctx.id, axis)
            ctx.count('stress_filter_calls', 3)


def stress_transform(ctx, r):
    t, D = big_table(ctx, r, big=True)
    for axis in ('observation', 'sample'):
        for inplace in (False, True):
            tt = t.copy()
            res = tt.transform(lambda v, i, m: v * 2 + 1, axis=axis,
                               inplace=inplace)
            exp = np.where(D != 0, D * 2 + 1, 0.)
            if not np.array_equal(res.matrix_data.toarray(), exp):
                raise Violation('%s/stress-transform' % ctx.id, axis)
            ctx.count('stress_transform_calls')
    res = t.norm(axis='sample', inplace=False)
    s = np.asarray(res.matrix_data.sum(axis=0)).ravel()
    tot = D.sum(axis=0)
    if not np.allclose(s[tot > 0], 1.0):
        raise Violation('%s/stress-norm' % ctx.id, 'column sums')
    ctx.count('stress_transform_calls')


def stress_subsample(ctx, r):
    t, D = big_table(ctx, r, big=True)
    for axis, V in (('sample', D.T), ('observation', D)):
        tot = V.sum(axis=1)
        small = sorted(set(int(x) for x in tot if 0 < x < 2 ** 20))
        for n in (1, small[len(small) // 2], small[-1], small[-1] + 1):
            for wr in (False, True):
                res = t.subsample(n, axis=axis, with_replacement=wr,
                                  seed=r.randrange(1000))
                R = res.matrix_data.toarray()
                sums = R.sum(axis=1 if axis == 'observation' else 0)
                if R.size and not np.all(sums == n):
                    raise Violation('%s/stress-subsample-sum' % ctx.id,
                                    'axis=%s n=%d wr=%s: sums %r' %
                                    (axis, n, wr, sorted(set(sums.tolist()
                                                             ))[:5]))
                keep = (tot >= n) if not wr else (tot > 0)
                if res.length(axis) != int(keep.sum()):
                    raise Violation('%s/stress-subsample-retained' % ctx.id,
                                    'axis=%s n=%d wr=%s: %d vectors, '
                                    'expected %d' % (axis, n, wr,
                                                     res.length(axis),
                                                     int(keep.sum())))
                ctx.count('stress_subsample_calls')
    # a single huge vector: draw n close to and equal to 2^31-scale totals
    T = ctx.biom.Table(np.array([[2.0 ** 31 + 5, 3.0], [7.0, 2.0 ** 33]]),
                       ['a', 'b'], ['x', 'y'])
    for n in (10, 1000, 100000):
        res = T.subsample(n, seed=1)
        if not np.all(np.asarray(res.sum('sample')) == n):
            raise Violation('%s/stress-subsample-bigcount' % ctx.id,
                            'n=%d sums %r' % (n, res.sum('sample')))
        ctx.count('stress_subsample_calls')


def stress_subsample_by_id(ctx, r):
    """Scale for the by-id form: few / a quarter / half / nearly all of
    3000 and 5000 ids, both axes; exactly min(n, N) distinct ids are kept,
    each with its vector unchanged."""
    for N in (3000, 5000):
        ids = ['id%05d' % i for i in range(N)]
        V = np.zeros((N, 3))
        V[:, 0] = np.arange(1, N + 1)
        V[:, 1] = 5.0 + (np.arange(N) % 7)
        V[:, 2] = 1.0           # no vector of either axis can become empty
        for axis in ('observation', 'sample'):
            t = ctx.biom.Table(V if axis == 'observation' else V.T,
                               ids if axis == 'observation' else
                               ['a', 'b', 'c'],
                               ['a', 'b', 'c'] if axis == 'observation'
                               else ids)
            for n in (1, 17, N // 8, N // 4, N // 2, N - 1, N, N + 5):
                res = t.subsample(n, axis=axis, by_id=True,
                                  seed=r.randrange(10 ** 6))
                kept = [str(i) for i in res.ids(axis=axis)]
                if len(kept) != min(n, N) or len(set(kept)) != len(kept) or \
                        not set(kept) <= set(ids):
                    raise Violation('%s/by-id-kept' % ctx.id, 'scale: %d ids '
                                    'kept (%d distinct) for n=%d of N=%d on '
                                    '%s' % (len(kept), len(set(kept)), n, N,
                                            axis))
                for i in kept[:50] + kept[-50:]:
                    got = np.asarray(res.data(i, axis=axis)).reshape(-1)
                    if not np.array_equal(got, V[int(i[2:])]):
                        raise Violation('%s/by-id-value-changed' % ctx.id,
                                        'scale: vector of %r is %r' %
                                        (i, got.tolist()))
                ctx.count('stress_by_id_calls')
