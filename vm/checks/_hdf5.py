"""Shared workload of C01 (HDF5 round trip) and C04 (BIOM 2.1 conformance).

One case = one generated table (+ optional random history) written once with
a random writer configuration; C01 reads it back through every loader, C04
decodes it with the independent spec decoder (vm/h5spec.py, raw h5py).
"""
import datetime
import os

import h5py
import numpy as np

from vm import gen, snap, h5spec
from vm.ctx import Violation

RESERVED_LIST = ('taxonomy', 'collapsed_ids', 'Taxonomy', 'KEGG_Pathways')


def in_c01_domain(s, allow_empty_axis=False, any_list_names=False):
    """Domain predicate over an observed snapshot (after a random history)."""
    if not allow_empty_axis and (not s.obs_ids or not s.samp_ids):
        return 'empty axis'
    for ids in (s.obs_ids, s.samp_ids):
        if len(set(ids)) != len(ids) or any((not i) or '\x00' in i
                                            for i in ids):
            return 'ids not distinct/non-empty'
    if not np.all(np.isfinite(s.D)):
        return 'non-finite value'
    for md in (s.obs_md, s.samp_md):
        if not md:
            continue
        keys = set(md[0])
        for e in md:
            if set(e) != keys:
                return 'ragged metadata categories'
        for k in keys:
            if not isinstance(k, str) or not k:
                return 'non-text category name'
            vals = [e[k] for e in md]
            kinds = set()
            for v in vals:
                if v is None:
                    kinds.add('null')
                elif isinstance(v, bool):
                    kinds.add('bool')
                elif isinstance(v, (int, np.integer)):
                    kinds.add('int')
                elif isinstance(v, (float, np.floating)):
                    kinds.add('float')
                elif isinstance(v, str):
                    kinds.add('str')
                elif isinstance(v, list):
                    kinds.add('list')
                    if (k not in RESERVED_LIST and not any_list_names) or \
                            not v or any(
                            (not isinstance(x, str)) or not x for x in v):
                        return 'list metadata outside the reserved form'
                else:
                    return 'metadata kind %s' % type(v).__name__
            if kinds == {'list', 'null'} or (kinds == {'null'} and
                                             k in RESERVED_LIST):
                kinds = {'list'}        # unknown for some ids: representable
            elif 'null' in kinds:
                return 'null metadata value outside a list category'
            if kinds == {'int', 'float'}:
                kinds = {'float'}       # all numeric
            if len(kinds) > 1:
                return 'heterogeneous category'
            if kinds == {'float'} and not all(np.isfinite(v) for v in vals):
                return 'non-finite metadata'
            if kinds == {'int'} and any(abs(v) >= 2 ** 63 for v in vals):
                return 'int out of int64'
    return None


HISTORY_OPS = ['none', 'none', 'filter', 'sort', 'transpose', 'subsample',
               'update_ids', 'norm', 'head', 'concat-self', 'merge-self',
               'collapse', 'pa', 'remove_empty', 'hdf5-roundtrip',
               'hdf5-roundtrip', 'json-roundtrip', 'collapse-ids']


def apply_history(ctx, r, t, spec):
    """A random content-changing public-API prefix; returns (table, name)."""
    op = r.choice(HISTORY_OPS)
    axis = r.choice(['sample', 'observation'])
    try:
        if op == 'filter':
            ids = list(t.ids(axis=axis))
            keep = r.sample(ids, r.randint(1, len(ids)))
            t = t.filter(keep, axis=axis, inplace=r.random() < .5)
        elif op == 'sort':
            ids = list(t.ids(axis=axis))
            r.shuffle(ids)
            t = t.sort_order(ids, axis=axis)
        elif op == 'transpose':
            ty = t.type
            t = t.transpose()
            t.type = ty
        elif op == 'subsample':
            if np.all(spec.D >= 0) and np.all(spec.D == np.floor(spec.D)) \
                    and spec.D.max() < 2 ** 20:
                t = t.subsample(r.randint(1, 3), axis=axis,
                                seed=r.randrange(99))
        elif op == 'update_ids':
            ids = list(t.ids(axis=axis))
            t = t.update_ids({i: i + '/é%d' % k for k, i in enumerate(ids)},
                             axis=axis, inplace=r.random() < .5)
        elif op == 'norm':
            if np.all(spec.D >= 0) and spec.D.max() < 1e150:
                t = t.norm(axis=axis, inplace=False)
        elif op == 'head':
            t = t.head(r.randint(1, 4), r.randint(1, 4))
        elif op == 'concat-self':
            o = t.update_ids({i: 'dup_' + i for i in t.ids(axis=axis)},
                             axis=axis, inplace=False)
            ty = t.type
            t = t.concat([o], axis=axis)
            t.type = ty
        elif op == 'merge-self':
            if spec.D.max() < 1e150:
                ty = t.type
                t = t.merge(t.copy())
                t.type = ty
        elif op == 'collapse':
            if np.all(np.abs(spec.D) < 1e150) and \
                    'collapsed_ids' not in str(spec.md(axis)) and \
                    'taxonomy' not in str(spec.md(axis)):
                t = t.collapse(lambda i, m: 'g%d' % (len(i) % 2), norm=False,
                               axis=axis)
        elif op == 'pa':
            t = t.pa(inplace=False)
        elif op == 'hdf5-roundtrip':
            # a table whose history includes an earlier write + load (its
            # metadata then holds what the reader produced, e.g. numpy
            # scalars)
            if in_c01_domain(snap.snap(t)) is None:
                p = ctx.path('hist%d.biom' % os.getpid())
                try:
                    ctx.biom.save_table(t, p)
                    t = ctx.biom.load_table(p)
                finally:
                    if os.path.exists(p):
                        os.remove(p)
                if r.random() < .5:
                    ids = list(t.ids(axis=axis))
                    r.shuffle(ids)
                    t = t.sort_order(ids, axis=axis)
        elif op == 'json-roundtrip':
            import json
            ty = t.type
            t = ctx.biom.Table.from_json(json.loads(t.to_json('vm')))
            t.type = ty
        elif op == 'collapse-ids':
            # collapsed_ids metadata made of the (possibly non-ASCII) ids
            if np.all(np.abs(spec.D) < 1e150) and spec.md(axis) is None:
                t = t.collapse(lambda i, m: 'g%d' % (len(i) % 2), norm=False,
                               axis=axis)
        elif op == 'remove_empty':
            t = t.remove_empty(inplace=False)
    except Exception as e:    # history ops are not the subject here
        ctx.skip('history op %s raised %s' % (op, type(e).__name__))
        return t, 'none'
    return t, op


def write_config(r):
    cfg = {
        'compress': r.random() < .5,
        'writer': r.choice(['to_hdf5', 'to_hdf5', 'save_table',
                            'save_table_default', 'save_table_handle',
                            'save_table_pathlib', 'to_hdf5_userblock']),
        'date': r.choice(['given', 'given', 'omitted']),
        'group_md': r.random() < .4,
        'table_id': r.choice([None, None, 'tbl-1', 'таблица "x"/7',
                              r.choice([x for x in gen.NULLISH
                                        if x.strip()])]),
        'generated_by': r.choice(['vm-check', 'gén "q" 1.0', 'a\\b', '',
                                  r.choice(gen.NULLISH)]),
        'date_variant': r.randrange(len(DATES)),
        'use_format_fs': r.random() < .08,
    }
    if cfg['writer'] == 'save_table_default':
        cfg['date'] = 'omitted'
        cfg['generated_by'] = None
    return cfg


def reloaded_group_metadata(ctx, t, index, sig_prefix, desc):
    """Known mechanism: from_hdf5 keeps only the text of a group-metadata
    entry while to_hdf5 needs (data type, text) pairs, so a loaded table that
    carries group metadata cannot be written again.  Recorded without
    aborting the case; the entries are then given a data type so the rest of
    the case can run."""
    hit = False
    for axis in ('observation', 'sample'):
        g = t.group_metadata(axis=axis)
        if g and any(isinstance(v, str) for v in g.values()):
            hit = True
    if not hit:
        return
    import h5py
    try:
        with h5py.File(ctx.path('probe%d.biom' % os.getpid()), 'w',
                       driver='core', backing_store=False) as f:
            t.to_hdf5(f, 'probe')
    except ValueError as e:
        ctx.violation(index, sig_prefix + '/reloaded-group-metadata-'
                      'unwritable', 'to_hdf5 raised ValueError(%s) for a '
                      'table that was loaded from an HDF5 file with group '
                      'metadata; case=%r' % (e, desc))
    for axis in ('observation', 'sample'):
        g = t.group_metadata(axis=axis)
        if g:
            for k, v in list(g.items()):
                if isinstance(v, str):
                    g[k] = ('newick', v)


_TZ = datetime.timezone
DATES = [datetime.datetime(2021, 3, 4, 5, 6, 7, 891011),
         datetime.datetime(2021, 3, 4, 5, 6, 7),
         datetime.datetime(2000, 1, 1),
         # dates that say which time zone they are in
         datetime.datetime(2021, 3, 4, 5, 6, 7, 123, tzinfo=_TZ.utc),
         datetime.datetime(2021, 3, 4, 5, 6, 7, tzinfo=_TZ(
             datetime.timedelta(hours=5, minutes=30))),
         datetime.datetime(1999, 12, 31, 23, 59, 59, 999999, tzinfo=_TZ(
             datetime.timedelta(hours=-8))),
         datetime.datetime(1970, 1, 1), datetime.datetime(9999, 12, 31, 23,
                                                          59, 59)]


def r_userblock(cfg):
    return [512, 1024, 4096][cfg.get('date_variant', 0) % 3]


def write(ctx, t, cfg, path):
    """Writes t per cfg; returns dict of what was passed."""
    if cfg['table_id'] is not None:
        t.table_id = cfg['table_id']
    else:
        t.table_id = None
    gmd = None
    if cfg['group_md']:
        gmd = {'tree': ('newick', '((a:0.1,b:0.2)é,c);'),
               'relationships': ('text', 'x -> y; "q"')}
        t.add_group_metadata(dict(gmd), axis='observation')
        t.add_group_metadata({'graph': ('json', '{"a": [1, 2]}')},
                             axis='sample')
    date = DATES[cfg.get('date_variant', 0)] \
        if cfg['date'] == 'given' else None
    kw = {'compress': cfg['compress']}
    if date is not None:
        kw['creation_date'] = date
    # a caller-supplied formatter for one text category (documented
    # `format_fs` keyword); the matching parser undoes it on read.  What one
    # call registers must not influence later writes in the same process.
    cfg['custom_category'] = None
    if cfg.get('use_format_fs') and cfg['writer'] != 'save_table_default':
        text, other = set(), set()
        for axis in ('observation', 'sample'):
            md = t.metadata(axis=axis)
            if md:
                for k in md[0]:
                    (text if all(isinstance(e.get(k), str) for e in md)
                     else other).add(k)
        cands = text - other - {'taxonomy', 'collapsed_ids'}
        if cands:
            cat = sorted(cands)[0]
            cfg['custom_category'] = cat

            def reversing_formatter(grp, header, md, compression):
                from biom.table import general_formatter
                general_formatter(grp, header,
                                  [{header: m[header][::-1]} for m in md],
                                  compression)
            kw['format_fs'] = {cat: reversing_formatter}
            ctx.count('format_fs_writes')
    t0 = datetime.datetime.now()
    if cfg['writer'] == 'to_hdf5':
        with h5py.File(path, 'w') as f:
            t.to_hdf5(f, cfg['generated_by'], **kw)
    elif cfg['writer'] == 'to_hdf5_userblock':
        # an HDF5 file may start with a user block (512, 1024, ... bytes of
        # anything); the HDF5 signature then sits behind it
        with h5py.File(path, 'w', userblock_size=r_userblock(cfg)) as f:
            t.to_hdf5(f, cfg['generated_by'], **kw)
        ctx.count('files_with_user_block')
    elif cfg['writer'] == 'save_table':
        ctx.biom.save_table(t, path, generated_by=cfg['generated_by'], **kw)
    elif cfg['writer'] == 'save_table_handle':
        with h5py.File(path, 'w') as f:
            ctx.biom.save_table(t, f, generated_by=cfg['generated_by'], **kw)
    elif cfg['writer'] == 'save_table_pathlib':
        import pathlib
        ctx.biom.save_table(t, pathlib.Path(path),
                            generated_by=cfg['generated_by'], **kw)
    else:
        ctx.biom.save_table(t, path)
    t1 = datetime.datetime.now()
    return {'date': date, 'window': (t0, t1)}


SHIPPED = ['biom/tests/test_data/test.biom',
           'biom/tests/test_cli/test_data/test.biom',
           'biom/tests/test_data/test_grp_metadata.biom',
           'biom/tests/test_data/edgecase_issue_952.biom',
           'examples/min_sparse_otu_table_hdf5.biom',
           'examples/rich_sparse_otu_table_hdf5.biom',
           'examples/rich_sparse_otu_table_hdf5_group_metadata.biom',
           'examples/rich_sparse_otu_table.biom',
           'examples/min_sparse_otu_table.biom']


def shipped_case(ctx, index, r):
    """A table whose history starts with loading one of the files shipped
    with the repository (BIOM 2.0, 2.1 and 1.0 files), optionally followed by
    an in-place operation; it is then written like any other table."""
    from vm import common
    rel = SHIPPED[(index // 13) % len(SHIPPED)]
    src_path = os.path.join(common.REPO, rel)
    if not os.path.exists(src_path):
        ctx.skip('shipped file missing: ' + rel)
        return None
    t = ctx.biom.load_table(src_path)
    hist = 'load:' + rel
    k = r.choice(['none', 'none', 'filter-inplace', 'pa-inplace',
                  'add-metadata'])
    if k == 'filter-inplace':
        ids = list(t.ids())
        t.filter(ids[:max(1, len(ids) - 1)], inplace=True)
    elif k == 'pa-inplace':
        t.pa(inplace=True)
    elif k == 'add-metadata':
        t.add_metadata({i: {'added': 'x'} for i in t.ids()}, axis='sample')
    ctx.count('shipped_file_tables')
    return t, hist + '+' + k


def gen_case(ctx, index, empty_axis_ok=False):
    """Returns (table, source snapshot, desc, cfg, path, written) or None."""
    r = ctx.rng(index)
    if index % 13 == 7:
        got = shipped_case(ctx, index, r)
        if got is None:
            return None
        t, hist = got
        st = gen.layout_state(t)
        ctx.cls('history', 'shipped')
        src = snap.snap(t)
        why = in_c01_domain(src, allow_empty_axis=empty_axis_ok)
        if why:
            ctx.skip('shipped table outside the C01 domain: ' + why)
            return None
        cfg = write_config(r)
        cfg['group_md'] = False      # keep the file's own group metadata
        cfg['table_id'] = None
        path = ctx.path('t%d.biom' % index)
        if os.path.exists(path):
            os.remove(path)
        desc = {'table': hist, 'layout': st, 'write': cfg}
        reloaded_group_metadata(ctx, t, index, ctx.id, desc)
        return t, src, desc, cfg, path, r
    spec = gen.gen_spec(r, max_n=7, max_m=7, allow_empty_text=True)
    # numeric metadata handed over as numpy scalars (what pandas / numpy code
    # produces): the same numbers
    if r.random() < .15:
        for md in (spec.obs_md, spec.samp_md):
            for k in sorted({k for e in (md or []) for k, v in e.items()
                             if isinstance(v, (int, float)) and
                             not isinstance(v, bool)}, key=str):
                vals = [e.get(k) for e in md]
                if not all(isinstance(v, (int, float)) and
                           not isinstance(v, bool) for v in vals):
                    continue
                for e in md:
                    v = e[k]
                    e[k] = np.int64(v) if isinstance(v, int) and \
                        abs(v) < 2 ** 62 else np.float64(v)
                ctx.count('numpy_scalar_metadata_categories')
    # a list-valued category may be unknown (None) for some of the ids
    for md in (spec.obs_md, spec.samp_md):
        if md and len(md) > 1 and r.random() < .15:
            for k in [k for k, v in md[0].items() if isinstance(v, list)]:
                # (now and then for every id)
                hi = len(md) if k in RESERVED_LIST and r.random() < .2 \
                    else len(md) - 1
                for q in r.sample(range(len(md)), r.randint(1, hi)):
                    md[q][k] = None
                ctx.count('list_category_with_null_entries')
    if empty_axis_ok and r.random() < .2:
        # what the file holds is decided by the specification, not by which
        # category names the library's own reader knows: list-valued
        # categories under other names, '/' included (C04 only: the library's
        # reader gives such categories back in another form)
        for md in (spec.obs_md, spec.samp_md):
            names = {k for e in (md or []) for k, v in e.items()
                     if isinstance(v, list)}
            # (a list category with unknown entries is only defined for the
            # reserved names)
            names = {k for k in names if all(e.get(k) is not None
                                             for e in md)}
            for e in (md or []):
                for k in names:
                    e['lineage/levels'] = e.pop(k)
                    ctx.count('list_category_under_other_name')
    if empty_axis_ok and index % 9 == 0:
        # 0 x M or N x 0 tables (C04 only)
        if r.random() < .5:
            spec = gen.Spec([], spec.samp_ids, np.zeros((0, len(
                spec.samp_ids))), None, spec.samp_md, spec.type)
        else:
            spec = gen.Spec(spec.obs_ids, [], np.zeros((len(spec.obs_ids),
                                                        0)),
                            spec.obs_md, None, spec.type)
        recipe = 'as-built'
        t = gen.build(ctx.biom, spec, 'dense')
        hist = 'none'
        ctx.count('empty_axis_tables')
    else:
        recipe = r.choice(gen.LAYOUTS)
        t = gen.apply_layout(ctx.biom, spec, recipe, r)
        t, hist = apply_history(ctx, r, t, spec)
    st = gen.layout_state(t)
    ctx.cls('layout_state', st)
    ctx.cls('history', hist)
    for k in ('ids_obs', 'ids_samp', 'values', 'md_obs', 'md_samp'):
        ctx.cls(k.split('_')[0] if k.startswith('ids') else k.split('_')[0],
                spec.classes.get(k))
    if 'unsorted' in st:
        ctx.count('layout_unsorted_seen')
    if st.startswith('csc'):
        ctx.count('layout_csc_seen')
    src = snap.snap(t)
    why = in_c01_domain(src, allow_empty_axis=empty_axis_ok,
                        any_list_names=empty_axis_ok)
    if why:
        ctx.skip('out of C01 domain after history: ' + why)
        return None
    cfg = write_config(r)
    ctx.cls('compress', cfg['compress'])
    ctx.cls('writer', cfg['writer'])
    path = ctx.path('t%d.biom' % index)
    if os.path.exists(path):
        os.remove(path)
    desc = {'table': spec.describe(), 'recipe': recipe, 'history': hist,
            'layout': st, 'write': cfg}
    return t, src, desc, cfg, path, r


# ---------------------------------------------------------------- C04 side
def md_for_spec_compare(md):
    """What the spec decoder should see for our canonical metadata."""
    out = []
    for e in md:
        d = {}
        for k, v in e.items():
            # "unknown for this id" (None, list categories only: see the
            # domain predicate) is stored as a row of empty strings
            d[k] = [] if v is None else v
        out.append(d)
    return out


def check_conformance(ctx, path, src, desc, sig='C04', custom=None,
                      table=None):
    dec = h5spec.decode(path)
    if table is not None and not dec['problems']:
        # what the table carries as group metadata is part of the table a
        # specification-only reader recovers: entry names, data types and
        # text, on the axis they belong to
        for ax, key in (('observation', 'obs_gmd'), ('sample', 'samp_gmd')):
            have = table.group_metadata(axis=ax) or {}
            exp = {}
            for k, v in have.items():
                if isinstance(v, (tuple, list)) and len(v) == 2:
                    exp[k] = {'data_type': v[0], 'value': v[1]}
            got = {k: v for k, v in dec[key].items() if k in exp or exp}
            if exp and got != exp:
                raise Violation(sig + '/group-metadata', '%s group metadata '
                                'in the file %r, the table carries %r; '
                                'case=%r' % (ax, dec[key], exp, desc))
            if not exp and not have and dec[key]:
                raise Violation(sig + '/group-metadata', '%s group metadata '
                                'in the file %r, the table carries none; '
                                'case=%r' % (ax, dec[key], desc))
            if exp:
                ctx.count('group_metadata_decoded')
    if dec['problems']:
        raise Violation(sig + '/spec-violation', '%s; case=%r' %
                        ('; '.join(dec['problems'][:4]), desc))
    if dec['obs_ids'] != src.obs_ids or dec['samp_ids'] != src.samp_ids:
        raise Violation(sig + '/ids', 'file ids %r / %r, table ids %r / %r; '
                        'case=%r' % (dec['obs_ids'], dec['samp_ids'],
                                     src.obs_ids, src.samp_ids, desc))
    if dec['shape'] != src.D.shape:
        raise Violation(sig + '/shape', '%r vs %r; case=%r' %
                        (dec['shape'], src.D.shape, desc))
    if dec['nnz'] != int(np.count_nonzero(src.D)):
        raise Violation(sig + '/nnz', 'nnz attribute %d, table has %d '
                        'non-zero cells; case=%r' %
                        (dec['nnz'], int(np.count_nonzero(src.D)), desc))
    for nm in ('D_obs_view', 'D_samp_view'):
        if not snap.bits_equal(dec[nm], src.D):
            raise Violation(sig + '/matrix-' + nm, 'decoded %r, table %r; '
                            'case=%r' % (dec[nm].tolist(), src.D.tolist(),
                                         desc))
    for axis, got, exp in (('observation', dec['obs_md'], src.obs_md),
                           ('sample', dec['samp_md'], src.samp_md)):
        if custom:
            got = undo_custom(got, custom)
        if not snap.md_equal([snap.canon_md([g], 1)[0] for g in got],
                             md_for_spec_compare(exp)):
            raise Violation(sig + '/metadata', '%s metadata in file %r, '
                            'table %r; case=%r' % (axis, got, exp, desc))
    ctx.count('spec_decodes')
    return dec


def undo_custom(md_list, cat):
    """Reverse the text of category `cat` (written through the reversing
    formatter and read without the matching parser)."""
    out = []
    for e in md_list:
        e = dict(e)
        if cat in e and isinstance(e[cat], str):
            e[cat] = e[cat][::-1]
        out.append(e)
    return out


RAGGED_VARIANTS = ['extra-on-later', 'missing-on-later', 'first-lacks',
                   'disjoint-keys', 'extra-on-last-only',
                   'flat-taxonomy', 'flat-taxonomy-with-null',
                   'flat-taxonomy-user-formatter']


def ragged_case(ctx, index, r, sig):
    """Per-id metadata whose categories differ between ids cannot be held by
    a BIOM 2.1 file (one dataset per category, one entry per id).  Writing
    such a table is either refused, or — if a file is produced — the file
    has to give every id back exactly the metadata it had."""
    import copy
    axis = r.choice(['observation', 'sample'])
    n, m = r.randint(2, 5), r.randint(1, 4)
    if axis == 'sample':
        n, m = m, n
    spec = gen.gen_spec(r, shape=(n, m), md_kinds=['text', 'int', 'float'],
                        id_classes=['ascii', 'one', 'cjk', 'numeric'],
                        value_classes=['count', 'frac'])
    k = len(spec.ids(axis))
    md = [dict(e) for e in (spec.md(axis) or [{'env': 'a'} for _ in
                                              range(k)])]
    base = sorted(md[0])[0]
    variant = RAGGED_VARIANTS[index % len(RAGGED_VARIANTS)]
    later = r.randrange(1, k)
    if variant.startswith('flat-taxonomy'):
        return _flat_taxonomy_case(ctx, index, r, sig, spec, axis, md,
                                   variant)
    if variant == 'extra-on-later':
        md[later]['vm confidence'] = 0.5
    elif variant == 'extra-on-last-only':
        md[-1]['vm_pH'] = 7
    elif variant == 'missing-on-later':
        for e in md:
            e.setdefault('vm_depth', 3)
        del md[later]['vm_depth']
    elif variant == 'first-lacks':
        for e in md[1:]:
            e['vm_depth'] = 4
    else:
        for q, e in enumerate(md):
            v = e.pop(base)
            e['%s_%d' % (base, q)] = v
    if axis == 'observation':
        spec.obs_md = md
    else:
        spec.samp_md = md
    desc = {'table': spec.describe(), 'ragged': variant, 'axis': axis}
    route = r.choice(['to_hdf5', 'to_hdf5', 'save_table', 'cli-convert'])
    desc['route'] = route
    t = gen.build(ctx.biom, spec, 'dense')
    ctx.count('ragged_metadata_cases')
    path = ctx.path('ragged%d.biom' % index)
    try:
        try:
            if route == 'to_hdf5':
                with h5py.File(path, 'w') as f:
                    t.to_hdf5(f, 'vm', compress=r.random() < .5)
            elif route == 'save_table':
                ctx.biom.save_table(t, path)
            else:
                jp = ctx.path('ragged%d.json' % index)
                with open(jp, 'w') as f:
                    f.write(t.to_json('vm'))
                from click.testing import CliRunner
                from biom.cli import cli
                rr = CliRunner().invoke(cli, ['convert', '-i', jp, '-o', path,
                                              '--to-hdf5'])
                os.remove(jp)
                if rr.exit_code != 0:
                    raise RuntimeError('exit %s' % rr.exit_code)
        except Exception:
            ctx.count('ragged_metadata_refused')
            ctx.case(desc, True)
            return
        ctx.count('ragged_metadata_written')
        exp = snap.canon_md(copy.deepcopy(md), k)
        try:
            t2 = ctx.biom.load_table(path)
            got = snap.canon_md(t2.metadata(axis=axis), k)
        except Exception as e:
            raise Violation(sig + '/ragged-metadata-file-unreadable',
                            '%s: %s; case=%r' % (type(e).__name__, e, desc))
        if not snap.md_equal(got, exp):
            raise Violation(sig + '/ragged-metadata-written-lossy',
                            'a table whose ids carry different metadata '
                            'categories was written without complaint; the '
                            'file gives back %r for %r; case=%r' %
                            (got, exp, desc))
    finally:
        if os.path.exists(path):
            os.remove(path)
    ctx.case(desc, True)


def _flat_taxonomy_case(ctx, index, r, sig, spec, axis, md, variant):
    """The writer accepts a 'taxonomy' category given as flat ';'-separated
    text and stores it as the list of its parts.  Whatever it accepts, the
    file holds one entry per id, in id order, and each id's entry is its own
    lineage; an id whose lineage is unknown (None) cannot be skipped."""
    k = len(md)
    pool = ['k__A; p__B; c__C', 'k__A;p__B', 'k__X', 'k__A; p__B; c__C; o__D',
            'Unassigned', 'k__é; p__日本']
    vals = [r.choice(pool) for _ in range(k)]
    if len(set(vals)) == 1 and k > 1:
        vals[-1] = 'k__Z; p__last'
    if variant.endswith('with-null'):
        for q in r.sample(range(k), r.randint(1, max(1, k - 1))):
            vals[q] = None
    for e, v in zip(md, vals):
        e['taxonomy'] = v
    if axis == 'observation':
        spec.obs_md = md
    else:
        spec.samp_md = md
    desc = {'table': spec.describe(), 'ragged': variant, 'axis': axis}
    t = gen.build(ctx.biom, spec, 'dense')
    ctx.count('ragged_metadata_cases')
    path = ctx.path('flat%d.biom' % index)
    user = variant.endswith('user-formatter')
    try:
        try:
            with h5py.File(path, 'w') as f:
                if user:
                    # the documented way to keep such text as it is: name a
                    # formatter for the category (and the parser on reading)
                    from biom.table import general_formatter
                    t.to_hdf5(f, 'vm', compress=r.random() < .5,
                              format_fs={'taxonomy': general_formatter})
                else:
                    kw_ = {}
                    others = sorted(k_ for k_ in md[0] if k_ != 'taxonomy')
                    if others and r.random() < .4:
                        # a formatter named for *another* category (the
                        # default one, so nothing changes for that category)
                        # leaves the handling of taxonomy as it is
                        from biom.table import general_formatter
                        kw_['format_fs'] = {others[0]: general_formatter}
                        desc['format_fs_for'] = others[0]
                        ctx.count('flat_taxonomy_with_formatter_for_another_'
                                  'category')
                    t.to_hdf5(f, 'vm', compress=r.random() < .5, **kw_)
        except Exception:
            ctx.count('ragged_metadata_refused')
            ctx.case(desc, True)
            return
        ctx.count('flat_taxonomy_written')
        if user:
            from biom.table import general_parser
            with h5py.File(path, 'r') as f:
                t2 = ctx.biom.Table.from_hdf5(
                    f, parse_fs={'taxonomy': general_parser})
            got = [e.get('taxonomy') for e in
                   snap.canon_md(t2.metadata(axis=axis), k)]
            if got != vals:
                raise Violation(sig + '/user-formatter-for-reserved-category',
                                'written with format_fs={taxonomy: '
                                'general_formatter}, read with the matching '
                                'parser: %r, table had %r; case=%r' %
                                (got, vals, desc))
            ctx.count('reserved_category_user_formatter')
            ctx.case(desc, True)
            return
        dec = h5spec.decode(path)
        if dec['problems']:
            raise Violation(sig + '/spec-violation', '%s; case=%r' %
                            ('; '.join(dec['problems'][:4]), desc))
        got = dec['obs_md' if axis == 'observation' else 'samp_md']
        ids_f = dec['obs_ids' if axis == 'observation' else 'samp_ids']
        if ids_f != spec.ids(axis) or len(got) != k:
            raise Violation(sig + '/flat-taxonomy-entries', 'file has %d '
                            'metadata entries for ids %r; case=%r' %
                            (len(got), ids_f, desc))
        for q, (g, v) in enumerate(zip(got, vals)):
            gv = g.get('taxonomy')
            ok = [gv == [], gv is None] if v is None else \
                [gv == v, gv == [p.strip() for p in v.split(';')]]
            if not any(ok):
                raise Violation(sig + '/flat-taxonomy-entries', 'id %r has '
                                'lineage %r, the file gives it %r; case=%r' %
                                (spec.ids(axis)[q], v, gv, desc))
    finally:
        if os.path.exists(path):
            os.remove(path)
    ctx.case(desc, True)
