"""C16 -- equality and serialisation depend only on content.

Monitors: equal-content families built through different routes with read
accessors interleaved; all ordered pairs compared through ==, != and
descriptive_equality, exports decoded by the independent decoders; and
single-difference pairs that must be unequal.
"""
import copy
import io
import json
import os

import h5py
import numpy as np
import scipy.sparse as sp

from vm import gen, snap, jsonspec, h5spec
from vm.ctx import Violation

ID = 'C16'
TITLE = 'equality depends only on content'
LEVEL = 'exploration'
RULE = ('per case one generated NaN-free table and a family of 6-10 '
        'equal-content tables (constructor input forms; csr/csc with stored '
        'zeros or unsorted indices; sort+inverse sort; filter keeping all; '
        'subsample by id at full depth; transpose twice; copy; identity '
        'rename; add-then-delete metadata) with read accessors interleaved '
        'in random order, all ordered pairs compared; plus single-difference '
        'pairs (value incl. tiny and to/from zero, id, swapped ids, one '
        'metadata entry, type). Non-trivial: members differ in layout state '
        'or route, or the pair differs in exactly one thing; distinct = '
        'distinct (table, family routes, accessor order)')
ASSUMPTIONS = [
    'routes through operations that are not stated to carry the table type '
    '(transpose) restore the public type attribute at the end of the route',
    'subsample-by-id at full depth is used only on tables without all-zero '
    'vectors (it drops them by design)',
]
ANCHORS = ['Table.__eq__', 'Table.descriptive_equality', 'Table._data_equality', 'Table._get_row', 'Table._get_col']
REQUIRED = ['tables_with_ragged_metadata', 'derived_exports_compared', 'pairs_compared', 'cell_queries_on_fresh_layout', 'derived_vs_rebuilt', 'accessor_interleavings',
            'single_difference_pairs', 'tiny_value_difference_pairs',
            'exports_compared_tsv', 'exports_compared_json',
            'exports_compared_hdf5', 'route_stored_zeros_input', 'route_stored_zero_written',
            'route_unsorted_input', 'route_sort_inverse',
            'route_transpose_twice', 'route_subsample_full',
            'layout_states_mixed_in_family']


def plan(tier):
    n = 1500 if tier == 'quick' else 40000
    return {'cases': n, 'shards': 16, 'min_nontrivial': 500,
            'timeout': 900 if tier == 'quick' else 3600}


def md_args(spec):
    return dict(observation_metadata=copy.deepcopy(spec.obs_md),
                sample_metadata=copy.deepcopy(spec.samp_md), type=spec.type)


def with_zeros(D, fmt, r):
    rows, cols = np.nonzero(D)
    rows, cols = list(rows), list(cols)
    vals = [D[i, j] for i, j in zip(rows, cols)]
    zr, zc = np.nonzero(D == 0)
    z = list(zip(zr, zc))
    r.shuffle(z)
    for i, j in z[:r.randint(1, 3)]:
        rows.append(i)
        cols.append(j)
        vals.append(0.0)
    coo = sp.coo_matrix((vals, (rows, cols)), shape=D.shape)
    return coo.tocsr() if fmt == 'csr' else coo.tocsc()


def unsorted_csr(D):
    m = sp.csr_matrix(D)
    for i in range(D.shape[0]):
        s, e = m.indptr[i], m.indptr[i + 1]
        m.indices[s:e] = m.indices[s:e][::-1].copy()
        m.data[s:e] = m.data[s:e][::-1].copy()
    m.has_sorted_indices = False
    return m


def routes(ctx, r, spec):
    Table = ctx.biom.Table
    D = spec.D
    o, s = list(spec.obs_ids), list(spec.samp_ids)
    kw = lambda: md_args(spec)    # noqa: E731
    out = []

    def add(name, f):
        out.append((name, f))
    add('dense', lambda: Table(D.copy(), o, s, **kw()))
    add('csc', lambda: Table(sp.csc_matrix(D), o, s, **kw()))
    add('coo', lambda: Table(sp.coo_matrix(D), o, s, **kw()))
    add('lil', lambda: Table(sp.lil_matrix(D), o, s, **kw()))
    add('dok', lambda: Table(sp.dok_matrix(D), o, s, **kw()))
    add('lists', lambda: Table([list(map(float, row)) for row in D], o, s,
                               input_is_dense=True, **kw()))
    add('row-arrays', lambda: Table([row.copy() for row in D], o, s, **kw()))
    if D.any():
        add('triples', lambda: Table(
            [[int(i), int(j), float(D[i, j])] for i, j in zip(*np.nonzero(
                D))] + [[0, 0, 0.0]], o, s, **kw()))
    if np.any(D == 0):
        add('stored-zeros-csr', lambda: Table(with_zeros(D, 'csr', r), o, s,
                                              **kw()))
        add('stored-zeros-csc', lambda: Table(with_zeros(D, 'csc', r), o, s,
                                              **kw()))
        # ... and tables in which a zero cell is *stored*: built with a value
        # there, which is then overwritten with 0 through the public
        # matrix_data handle (a different cell in each of the two routes)
        zr, zc = np.nonzero(D == 0)

        def stored_zero_written(q):
            D2 = D.copy()
            i, j = int(zr[q]), int(zc[q])
            D2[i, j] = 7.0
            t = Table(D2, o, s, **kw())
            m = t.matrix_data.tocsr()
            if m is not t.matrix_data:
                return Table(D.copy(), o, s, **kw())
            m.sort_indices()
            lo, hi = m.indptr[i], m.indptr[i + 1]
            pos = lo + int(np.searchsorted(m.indices[lo:hi], j))
            m.data[pos] = 0.0
            return t
        add('stored-zero-written-first', lambda: stored_zero_written(0))
        add('stored-zero-written-last', lambda: stored_zero_written(-1))
    add('unsorted-csr-input', lambda: Table(unsorted_csr(D), o, s, **kw()))
    # ... and a table whose own matrix was left unsorted through the public
    # matrix_data handle (the constructor may order its copy)
    add('unsorted-csr', lambda: gen.apply_layout(ctx.biom, spec,
                                                 'csr-unsorted', r))
    for lay in ('csr-duplicate-entries', 'csc-duplicate-entries'):
        add(lay, lambda lay=lay: gen.apply_layout(ctx.biom, spec, lay, r))

    def base():
        return Table(D.copy(), o, s, **kw())

    def sort_inverse():
        axis = r.choice(['sample', 'observation'])
        ids = list(spec.ids(axis))
        p = ids[:]
        r.shuffle(p)
        return base().sort_order(p, axis=axis).sort_order(ids, axis=axis)
    add('sort-inverse', sort_inverse)
    add('filter-keep-all', lambda: base().filter(
        lambda v, i, m: True, axis=r.choice(['sample', 'observation']),
        inplace=r.random() < .5))

    def transpose_twice():
        t = base().transpose().transpose()
        t.type = spec.type
        return t
    add('transpose-twice', transpose_twice)
    add('copy', lambda: base().copy())
    add('identity-rename', lambda: base().update_ids(
        {i: i for i in s}, axis='sample', inplace=r.random() < .5))

    def add_del_md():
        t = base()
        t.add_metadata({i: {'__tmp__': 1} for i in s}, axis='sample')
        t.del_metadata(keys=['__tmp__'], axis='sample')
        return t
    add('add-delete-metadata', add_del_md)
    if D.size and np.all(np.any(D != 0, axis=0)) and np.all(np.any(D != 0,
                                                                   axis=1)):
        add('subsample-full', lambda: base().subsample(
            len(s) + r.randint(0, 2), axis='sample', by_id=True,
            seed=r.randrange(99)))
    add('touch-sample', lambda: _touch(base(), s[0], 'sample'))
    return out


def _touch(t, i, axis):
    t.data(i, axis)
    return t


def accessor(r, t, other):
    k = r.choice(['nnz', 'data', 'iter', 'eq', 'sum', 'str', 'nonzero',
                  'density', 'none', 'tsv-header-absent', 'tsv-header-present',
                  'to_json', 'repr', 'min-max', 'to_dataframe',
                  'metadata_to_dataframe', 'metadata-lookups', 'group-md',
                  'is_empty-length-shape', 'exists-index', 'descriptive'])
    if k == 'nnz':
        t.nnz
    elif k == 'data':
        ax = r.choice(['sample', 'observation'])
        t.data(t.ids(axis=ax)[0], ax)
    elif k == 'iter':
        list(t.iter(axis=r.choice(['sample', 'observation'])))
    elif k == 'eq':
        t == other
    elif k == 'sum':
        t.sum(r.choice(['whole', 'sample', 'observation']))
    elif k == 'str':
        str(t)
    elif k == 'nonzero':
        list(t.nonzero())
    elif k == 'density':
        t.get_table_density()
    elif k == 'tsv-header-absent':
        # exporting a category that no observation has is still a read
        t.to_tsv(header_key='no_such_category', header_value='x')
    elif k == 'tsv-header-present':
        md = t.metadata(axis='observation')
        if md is not None and md[0]:
            key = sorted(md[0], key=str)[0]
            t.to_tsv(header_key=key, header_value=str(key),
                     metadata_formatter=str)
    elif k == 'to_json':
        t.to_json('acc')
    elif k == 'repr':
        repr(t)
    elif k == 'min-max':
        try:
            t.min('sample')
            t.max('observation')
        except ValueError:
            pass            # a vector without non-zero values
    elif k == 'to_dataframe':
        t.to_dataframe(dense=bool(r.random() < .5))
    elif k == 'metadata_to_dataframe':
        for ax in ('observation', 'sample'):
            if t.metadata(axis=ax) is not None:
                try:
                    t.metadata_to_dataframe(ax)
                except Exception:
                    pass        # what it can tabulate is C19's subject
    elif k == 'metadata-lookups':
        for ax in ('observation', 'sample'):
            ids = t.ids(axis=ax)
            t.metadata(ids[0], axis=ax)
            t.metadata(axis=ax)
            if t.metadata(axis=ax) is not None:
                list(t.iter(axis=ax, dense=False))
    elif k == 'group-md':
        t.group_metadata(axis='observation')
        t.group_metadata(axis='sample')
    elif k == 'is_empty-length-shape':
        t.is_empty()
        t.length('sample')
        t.length('observation')
        t.shape
        t.dtype
    elif k == 'exists-index':
        for ax in ('observation', 'sample'):
            t.exists(t.ids(axis=ax)[-1], axis=ax)
            t.exists('no such id', axis=ax)
            t.index(t.ids(axis=ax)[0], axis=ax)
    elif k == 'descriptive':
        t.descriptive_equality(other)
        other.descriptive_equality(t)
    return k


_EQ_MSG = []


def equal_verdicts(a, b):
    if not _EQ_MSG:
        # the wording of descriptive_equality is not part of the property:
        # the reference text is what a table says about its own copy
        _EQ_MSG.append(a.descriptive_equality(a.copy()))
    return (a == b, not (a != b), a.descriptive_equality(b) == _EQ_MSG[0])


def export_views(ctx, t, tag):
    date = __import__('datetime').datetime(2020, 1, 2, 3, 4, 5)
    tsv = t.to_tsv()
    # the text written to a handle is the text returned (with and without
    # a formatted metadata column)
    import io as _io
    md = t.metadata(axis='observation')
    kws = [{}]
    if md is not None and md[0]:
        key = sorted(md[0], key=str)[0]
        kws.append(dict(header_key=key, header_value='md:' + str(key),
                        metadata_formatter=lambda v: 'F(%s)' % (v,)))
    for kw in kws:
        buf = _io.StringIO()
        t.to_tsv(direct_io=buf, **kw)
        if buf.getvalue().rstrip('\n') != t.to_tsv(**kw).rstrip('\n'):
            raise Violation('C16/exports-differ/tsv-handle-vs-text', 'to_tsv '
                            'writes %r to a handle and returns %r (%s)' %
                            (buf.getvalue()[:300], t.to_tsv(**kw)[:300],
                             sorted(kw)))
    doc = jsonspec.loads_strict(t.to_json('vm', creation_date=date))
    j = jsonspec.decode(doc)
    jview = (j['obs_ids'], j['samp_ids'], j['D'].tolist(),
             snap.canon_md(j['obs_md'], len(j['obs_ids'])),
             snap.canon_md(j['samp_md'], len(j['samp_ids'])), j['type'])
    return tsv, jview


def hdf5_view(ctx, t, path):
    with h5py.File(path, 'w') as f:
        t.to_hdf5(f, 'vm')
    d = h5spec.decode(path)
    os.remove(path)
    if d['problems']:
        return ('problems', d['problems'])
    return (d['obs_ids'], d['samp_ids'], d['D_obs_view'].tolist(),
            d['D_samp_view'].tolist(), d['obs_md'], d['samp_md'], d['type'],
            d['nnz'])


def derived_vs_rebuilt(ctx, r, spec, base, desc):
    """Whatever history produced a table, it must equal (both ways, before
    and after read accessors) the table constructed from its observable
    content."""
    Table = ctx.biom.Table
    D = spec.D
    cand = ['transform-zero', 'pa', 'filter', 'sort', 'merge-cancel',
            'negate-obs', 'rename', 'add-metadata', 'del-metadata-key',
            'del-metadata-key', 'del-metadata-all']
    if D.size and np.all(D >= 0) and np.all(D == np.floor(D)) and \
            D.max() < 1e6 and D.sum() > 0:
        cand += ['subsample', 'subsample', 'subsample-replace']
    how = r.choice(cand)
    t = base.copy()
    # questions asked before the change must not colour the answers after it
    asked = [accessor(r, t, base) for _ in range(r.randint(0, 3))]
    if r.random() < .35:
        # ... nor must a full set of exports taken before it
        str(t)
        t.to_tsv()
        t.to_json('before')
        asked.append('all-exports')
    try:
        if how == 'negate-obs':
            t.transform(lambda v, i, m: -v, axis='observation')
        elif how == 'rename':
            ax = r.choice(['sample', 'observation'])
            t.update_ids({i: 'n_%s' % i for i in t.ids(axis=ax)}, axis=ax)
        elif how == 'add-metadata':
            ax = r.choice(['sample', 'observation'])
            t.add_metadata({i: {'added': k} for k, i in
                            enumerate(t.ids(axis=ax))}, axis=ax)
        elif how == 'del-metadata-key':
            # one category goes (on one axis or on both), the others stay
            ax = r.choice(['sample', 'observation', 'whole'])
            keys = set()
            for a in (('sample', 'observation') if ax == 'whole' else (ax,)):
                for m in (t.metadata(axis=a) or ()):
                    keys.update(m or ())
            if not keys:
                return
            t.del_metadata(keys=[r.choice(sorted(keys, key=str))], axis=ax)
        elif how == 'del-metadata-all':
            t.del_metadata(axis=r.choice(['sample', 'observation', 'whole']))
        elif how == 'subsample':
            tot = sorted(set(D.sum(axis=0).tolist()))
            n = max(1, int(r.choice(tot) // 2))
            t = t.subsample(n, seed=r.randrange(99))
        elif how == 'subsample-replace':
            t = t.subsample(max(1, int(D.sum() // (2 * D.shape[1]) or 1)),
                            with_replacement=True, seed=r.randrange(99))
        elif how == 'transform-zero':
            t.transform(lambda v, i, m: np.where(v > np.median(v), v, 0.),
                        axis=r.choice(['sample', 'observation']))
        elif how == 'pa':
            t.pa()
        elif how == 'filter':
            ids = list(t.ids())
            t.filter(r.sample(ids, max(1, len(ids) - 1)))
        elif how == 'sort':
            ids = list(t.ids(axis='observation'))
            r.shuffle(ids)
            t = t.sort_order(ids, axis='observation')
        elif how == 'merge-cancel':
            neg = base.copy()
            neg.transform(lambda v, i, m: -v)
            ty = t.type
            t = t.merge(neg)
            t.type = ty
    except Exception as e:
        ctx.skip('derived route %s raised %s' % (how, type(e).__name__))
        return
    if t.is_empty():
        return
    s0 = snap.snap(t)
    reb = Table(s0.D.copy(), list(s0.obs_ids), list(s0.samp_ids),
                None if not any(s0.obs_md) else copy.deepcopy(s0.obs_md),
                None if not any(s0.samp_md) else copy.deepcopy(s0.samp_md),
                type=s0.type)
    ddesc = dict(desc, derived=how, asked_before=asked)
    # equal tables export the same (the rebuilt one was never asked anything)
    if how != 'subsample-replace':
        for nm, f in (('str', str), ('to_tsv', lambda x: x.to_tsv()),
                      ('to_json-views', lambda x: export_views(ctx, x,
                                                               '')[1])):
            ea, eb = f(t), f(reb)
            if ea != eb:
                raise Violation('C16/derived-exports-differ/' + nm,
                                'a table produced by %s (after %r) exports '
                                '%r, the table rebuilt from its content %r; '
                                'case=%r' % (how, asked, ea, eb, ddesc))
        ctx.count('derived_exports_compared')
    for a, b in ((t, reb), (reb, t)):
        v1 = equal_verdicts(a, b)
        acc = accessor(r, a, b)
        v2 = equal_verdicts(a, b)
        if v1 != (True, True, True) or v2 != (True, True, True):
            raise Violation('C16/derived-unequal-to-own-content/' + how,
                            'a table produced by %s is not equal to the '
                            'table rebuilt from its content: before %r, '
                            'after accessor %s %r; layout %s; case=%r' %
                            (how, v1, acc, v2, gen.layout_state(t), ddesc))
    ctx.count('derived_vs_rebuilt')
    ctx.cls('derived_route', how)


def run_case(ctx, index):
    r = ctx.rng(index)
    hdf5_ok = index % 3 == 0
    spec = gen.gen_spec(r, max_n=5, max_m=5, allow_empty_text=True)
    if r.random() < .15:
        # ids need not all carry the same categories
        for md in (spec.obs_md, spec.samp_md):
            if md and len(md) > 1 and r.random() < .7:
                q = r.randrange(len(md))
                if r.random() < .5 or len(md[q]) < 2:
                    md[q]['only here'] = r.choice(['x', 3, ['a', 'b']])
                else:
                    del md[q][sorted(md[q], key=str)[-1]]
                ctx.count('tables_with_ragged_metadata')
    rts = routes(ctx, r, spec)
    k = min(len(rts), r.randint(6, 10))
    chosen = r.sample(rts, k)
    fam = []
    for name, f in chosen:
        t_new = f()
        # per-cell queries first, in the layout the route left behind (later
        # reads convert it)
        if index % 2 == 0:
            for a, o in enumerate(spec.obs_ids):
                for b, s_ in enumerate(spec.samp_ids):
                    if not snap.bits_equal([t_new.get_value_by_ids(o, s_)],
                                           [spec.D[a, b]]):
                        raise Violation(
                            'C16/cell-query-differs/' + name, '(%r,%r) '
                            'answers %r, content is %r; layout %s; table=%r'
                            % (o, s_, float(t_new.get_value_by_ids(o, s_)),
                               float(spec.D[a, b]),
                               gen.layout_state(t_new), spec.describe()))
            ctx.count('cell_queries_on_fresh_layout')
        fam.append((name, t_new))
        ctx.cls('route', name)
        if name.startswith('stored-zeros'):
            ctx.count('route_stored_zeros_input')
        if name.startswith('stored-zero-written'):
            ctx.count('route_stored_zero_written')
        if name == 'unsorted-csr':
            ctx.count('route_unsorted_input')
        if name == 'sort-inverse':
            ctx.count('route_sort_inverse')
        if name == 'transpose-twice':
            ctx.count('route_transpose_twice')
        if name == 'subsample-full':
            ctx.count('route_subsample_full')
    states = {gen.layout_state(t) for _, t in fam}
    for st in states:
        ctx.cls('layout_state', st)
    if len(states) > 1:
        ctx.count('layout_states_mixed_in_family')
    desc = {'table': spec.describe(), 'routes': [n for n, _ in fam]}
    # every member really has the content (guards the harness itself)
    ref = snap.snap_spec(spec)
    want_nz = sorted((spec.obs_ids[i], spec.samp_ids[j])
                     for i, j in zip(*np.nonzero(spec.D)))
    for name, t in fam:
        # the cells a member lists as non-zero are a per-cell answer too
        # (asked before anything else has looked at the member)
        if index % 2:
            listed = sorted((str(a), str(b)) for a, b in t.nonzero())
            if listed != want_nz:
                raise Violation('C16/cell-query-differs/' + name, 'nonzero() '
                                'lists %r, the non-zero cells are %r; case=%r'
                                % (listed, want_nz, desc))
        d = snap.diff(snap.snap(t), ref)
        if d:
            raise Violation('C16/route-changed-content/' + name, '%s; '
                            'case=%r' % ('; '.join(d), desc))
    order = [(a, b) for a in range(len(fam)) for b in range(len(fam))]
    r.shuffle(order)
    log = []
    for a, b in order:
        na, ta = fam[a]
        nb, tb = fam[b]
        v1 = equal_verdicts(ta, tb)
        acc = accessor(r, ta, tb), accessor(r, tb, ta)
        v2 = equal_verdicts(ta, tb)
        ctx.count('pairs_compared')
        ctx.count('accessor_interleavings')
        log.append((na, nb, acc))
        for v, when in ((v1, 'before'), (v2, 'after')):
            if v != (True, True, True):
                raise Violation(
                    'C16/equal-content-unequal', '%s vs %s (%s accessors %r):'
                    ' ==:%s not!=:%s descriptive:%s; layouts %s / %s; '
                    'case=%r' % (na, nb, when, acc, v[0], v[1], v[2],
                                 gen.layout_state(ta), gen.layout_state(tb),
                                 desc))
    # exports and per-id queries agree across the family
    views = []
    for name, t in fam:
        views.append((name,) + export_views(ctx, t, name))
    ctx.count('exports_compared_tsv')
    ctx.count('exports_compared_json')
    for name, tsv, jv in views[1:]:
        if tsv != views[0][1]:
            raise Violation('C16/tsv-export-differs', '%s vs %s; case=%r' %
                            (views[0][0], name, desc))
        if jv != views[0][2]:
            raise Violation('C16/json-export-differs', '%s vs %s: %r vs %r;'
                            ' case=%r' % (views[0][0], name, views[0][2], jv,
                                          desc))
    from vm.checks._hdf5 import in_c01_domain
    if hdf5_ok and in_c01_domain(ref) is None:
        hv = [(name, hdf5_view(ctx, t, ctx.path('c16_%d.h5' % index)))
              for name, t in fam[:4]]
        for name, v in hv[1:]:
            if repr(v) != repr(hv[0][1]):
                raise Violation('C16/hdf5-export-differs', '%s vs %s: %r vs '
                                '%r; case=%r' % (hv[0][0], name, hv[0][1], v,
                                                 desc))
        ctx.count('exports_compared_hdf5')
    for name, t in fam:
        for a, o in enumerate(spec.obs_ids):
            for b, s in enumerate(spec.samp_ids):
                if not snap.bits_equal([t.get_value_by_ids(o, s)],
                                       [spec.D[a, b]]):
                    raise Violation('C16/cell-query-differs/' + name,
                                    '(%r,%r); case=%r' % (o, s, desc))
    ctx.case(desc, len(fam) >= 2)
    # ---------------------- a derived table equals its own content rebuilt
    derived_vs_rebuilt(ctx, r, spec, fam[0][1], desc)
    # ------------------------------------------ single-difference pairs
    base = fam[0][1]
    n, m = spec.D.shape
    diffs = []
    i, j = r.randrange(n), r.randrange(m)
    v = spec.D[i, j]
    for nm, nv in (('plus1', v + 1 if abs(v) < 1e15 else v * 2),
                   ('tiny-rel', v * (1 + 2 ** -40) if v else 3e-9),
                   ('tiny-abs', v + 4e-9 if abs(v) < 1e-6 else
                    np.nextafter(v, np.inf)),
                   ('to-from-zero', 0.0 if v else 1.0)):
        if nv != v and np.isfinite(nv):
            s2 = spec.copy()
            s2.D[i, j] = nv
            diffs.append(('value-' + nm, s2))
    s2 = spec.copy()
    s2.obs_ids[r.randrange(n)] += '_x'
    diffs.append(('one-id', s2))
    if m >= 2:
        s2 = spec.copy()
        s2.samp_ids[0], s2.samp_ids[1] = s2.samp_ids[1], s2.samp_ids[0]
        diffs.append(('ids-swapped', s2))
    if n >= 2 and not snap.bits_equal(spec.D[0], spec.D[1]):
        s2 = spec.copy()
        s2.D[[0, 1], :] = s2.D[[1, 0], :]
        diffs.append(('rows-swapped-ids-kept', s2))
    s2 = spec.copy()
    if s2.samp_md is None:
        s2.samp_md = [{'k': 'v'}] + [{'k': 'w'} for _ in range(m - 1)]
    else:
        s2.samp_md = copy.deepcopy(s2.samp_md)
        k0 = sorted(s2.samp_md[-1], key=str)[0]
        s2.samp_md[-1][k0] = '__changed__'
    diffs.append(('one-metadata-entry', s2))
    s2 = spec.copy()
    s2.type = 'Gene table' if spec.type != 'Gene table' else None
    diffs.append(('type', s2))
    for nm, s2 in diffs:
        other = gen.build(ctx.biom, s2, r.choice(['dense', 'csc', 'coo']))
        mine = r.choice(fam)[1]
        ddesc = dict(desc, difference=nm, other=s2.describe())
        for x, y in ((mine, other), (other, mine)):
            if (x == y) or not (x != y) or \
                    x.descriptive_equality(y) == (_EQ_MSG[0] if _EQ_MSG else
                                                   'Tables appear equal'):
                raise Violation('C16/different-content-equal/' + nm,
                                'tables differing in exactly one %s compare '
                                'equal; case=%r' % (nm, ddesc))
        ctx.count('single_difference_pairs')
        if nm.startswith('value-tiny'):
            ctx.count('tiny_value_difference_pairs')
        ctx.case(ddesc, True)
