"""setup_cmd: build kernels (plain + sanitizer variant), install icontract
offline into /verif/.deps.  Everything here is re-created on demand by the
checks, so a failure is reported but is not fatal."""
import os
import subprocess
import sys

from vm import build, common


def ensure_deps():
    if os.path.isdir(os.path.join(common.DEPS, 'icontract')):
        return 'present'
    r = subprocess.run([common.PY, '-m', 'pip', 'install', '--no-index',
                        '--find-links', '/opt/veriftools/wheels', '--target',
                        common.DEPS, '--quiet', 'icontract'],
                       capture_output=True, text=True)
    return 'installed' if r.returncode == 0 else 'FAILED: ' + r.stderr[-300:]


def main():
    print('icontract:', ensure_deps())
    for variant in ('plain', 'san'):
        for k, (so, msg) in build.build_all(variant).items():
            print(variant, k, msg)
    print('asan runtime:', build.asan_runtime())
    return 0


if __name__ == '__main__':
    sys.exit(main())
