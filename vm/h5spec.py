"""Independent decoder/validator of BIOM 2.1 HDF5 files (raw h5py only).

Written against doc/documentation/format_versions/biom-2.1.rst.  Never
imports biom.  `decode(path)` returns a dict with the decoded content and a
list `problems` of spec violations.
"""
import datetime

import h5py
import numpy as np

REQ_ATTRS = ['id', 'type', 'format-url', 'format-version', 'generated-by',
             'creation-date', 'shape', 'nnz']
REQ_GROUPS = ['observation', 'observation/matrix', 'observation/metadata',
              'observation/group-metadata', 'sample', 'sample/matrix',
              'sample/metadata', 'sample/group-metadata']
REQ_DATASETS = ['observation/ids', 'observation/matrix/data',
                'observation/matrix/indices', 'observation/matrix/indptr',
                'sample/ids', 'sample/matrix/data', 'sample/matrix/indices',
                'sample/matrix/indptr']


def _s(x):
    if isinstance(x, bytes):
        return x.decode('utf8')
    if isinstance(x, np.generic):
        x = x.item()
        if isinstance(x, bytes):
            return x.decode('utf8')
    return x


def _is_int(x):
    return isinstance(x, (int, np.integer)) and not isinstance(x, (bool,
                                                                   np.bool_))


def _decode_matrix(f, axis, n_vec, n_other, problems):
    """Returns (dense by assignment, dense by accumulation), vectors as
    rows."""
    g = f[axis + '/matrix']
    data = g['data'][:]
    indices = g['indices'][:]
    indptr = g['indptr'][:]
    where = axis + '/matrix'
    if g['data'].dtype != np.float64:
        problems.append('%s/data dtype %s, spec says float64' %
                        (where, g['data'].dtype))
    for nm in ('indices', 'indptr'):
        if g[nm].dtype != np.int32:
            problems.append('%s/%s dtype %s, spec says int32' %
                            (where, nm, g[nm].dtype))
    if len(indptr) != n_vec + 1:
        problems.append('%s/indptr has %d entries for %d vectors' %
                        (where, len(indptr), n_vec))
        return None, None
    if len(indptr) and indptr[0] != 0:
        problems.append('%s/indptr[0] = %d' % (where, indptr[0]))
    if np.any(np.diff(indptr) < 0):
        problems.append('%s/indptr is not monotone' % where)
    if len(data) != len(indices):
        problems.append('%s data/indices differ in length' % where)
        return None, None
    if len(indptr) and indptr[-1] != len(data):
        problems.append('%s/indptr ends at %d but there are %d entries' %
                        (where, indptr[-1], len(data)))
        return None, None
    if len(indices) and (indices.min() < 0 or indices.max() >= n_other):
        problems.append('%s/indices out of range [0,%d)' % (where, n_other))
        return None, None
    if np.any(data == 0):
        problems.append('%s stores %d explicit zeros' %
                        (where, int(np.sum(data == 0))))
    a = np.zeros((n_vec, n_other))
    b = np.zeros((n_vec, n_other))
    for v in range(n_vec):
        for k in range(indptr[v], indptr[v + 1]):
            a[v, indices[k]] = data[k]
            b[v, indices[k]] += data[k]
    if not np.array_equal(a, b):
        problems.append('%s has duplicate coordinates' % where)
    return a, b


def _decode_ids(f, axis, problems):
    ds = f[axis + '/ids']
    raw = ds[:]
    if len(raw) and not (h5py.check_string_dtype(ds.dtype) or
                         ds.dtype.kind in 'SUO'):
        problems.append('%s/ids is not string typed (%s)' % (axis, ds.dtype))
    return [_s(x) for x in raw]


def _decode_metadata(f, axis, n, problems):
    md = [dict() for _ in range(n)]
    for name, ds in f[axis + '/metadata'].items():
        cat = name.replace('@@SLASH@@', '/')
        arr = ds[:]
        if arr.shape[0] != n:
            problems.append('%s/metadata/%s has first dimension %d for %d '
                            'ids' % (axis, name, arr.shape[0], n))
            continue
        for k in range(n):
            row = arr[k]
            if arr.ndim == 2:
                md[k][cat] = [_s(x) for x in row if _s(x) != '']
            else:
                md[k][cat] = _s(row)
    gmd = {}
    for name, ds in f[axis + '/group-metadata'].items():
        gmd[name] = {'value': _s(ds[0]),
                     'data_type': _s(ds.attrs.get('data_type'))}
    return md, gmd


def decode(path):
    problems = []
    out = {'problems': problems}
    with h5py.File(path, 'r') as f:
        for a in REQ_ATTRS:
            if a not in f.attrs:
                problems.append('missing attribute %r' % a)
        for g in REQ_GROUPS:
            if g not in f or not isinstance(f[g], h5py.Group):
                problems.append('missing group %r' % g)
        for d in REQ_DATASETS:
            if d not in f or not isinstance(f[d], h5py.Dataset):
                problems.append('missing dataset %r' % d)
        if problems:
            return out
        at = {k: f.attrs[k] for k in REQ_ATTRS}
        for k in ('id', 'type', 'format-url', 'generated-by',
                  'creation-date'):
            if not isinstance(_s(at[k]), str):
                problems.append('attribute %r is not a string: %r' %
                                (k, at[k]))
        out['id'] = _s(at['id'])
        out['type'] = _s(at['type'])
        out['generated-by'] = _s(at['generated-by'])
        out['format-url'] = _s(at['format-url'])
        out['creation-date'] = _s(at['creation-date'])
        try:
            datetime.datetime.fromisoformat(out['creation-date'])
        except Exception:
            problems.append('creation-date %r is not ISO 8601' %
                            out['creation-date'])
        fv = list(np.atleast_1d(at['format-version']))
        if len(fv) != 2 or not all(_is_int(x) for x in fv) or \
                [int(x) for x in fv] != [2, 1]:
            problems.append('format-version %r is not (2, 1)' % (fv,))
        sh = list(np.atleast_1d(at['shape']))
        if len(sh) != 2 or not all(_is_int(x) for x in sh):
            problems.append('shape %r is not two integers' % (sh,))
            return out
        n, m = int(sh[0]), int(sh[1])
        out['shape'] = (n, m)
        if not _is_int(at['nnz']):
            problems.append('nnz %r is not an integer' % (at['nnz'],))
        out['nnz'] = int(at['nnz'])
        oi = _decode_ids(f, 'observation', problems)
        si = _decode_ids(f, 'sample', problems)
        out['obs_ids'], out['samp_ids'] = oi, si
        if len(oi) != n:
            problems.append('%d observation ids for shape[0]=%d' %
                            (len(oi), n))
        if len(si) != m:
            problems.append('%d sample ids for shape[1]=%d' % (len(si), m))
        if len(oi) != n or len(si) != m:
            return out
        out['obs_md'], out['obs_gmd'] = _decode_metadata(f, 'observation', n,
                                                         problems)
        out['samp_md'], out['samp_gmd'] = _decode_metadata(f, 'sample', m,
                                                           problems)
        ra, rb = _decode_matrix(f, 'observation', n, m, problems)
        ca, cb = _decode_matrix(f, 'sample', m, n, problems)
        if ra is None or ca is None:
            return out
        out['D_obs_view'] = ra
        out['D_samp_view'] = ca.T
        if not np.array_equal(ra, ca.T):
            problems.append('observation-oriented and sample-oriented '
                            'copies decode to different matrices')
        for nm, g in (('observation', f['observation/matrix']),
                      ('sample', f['sample/matrix'])):
            if len(g['data']) != out['nnz']:
                problems.append('%s/matrix holds %d entries, nnz attribute '
                                'is %d' % (nm, len(g['data']), out['nnz']))
        if int(np.count_nonzero(ra)) != out['nnz']:
            problems.append('nnz attribute %d, matrix has %d non-zero cells'
                            % (out['nnz'], int(np.count_nonzero(ra))))
    return out
